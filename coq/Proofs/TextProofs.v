(* TextProofs.v — convergence of concurrent edits on the character-level text model
   (Crdt/TextRGA.v).

   An edit = tombstone the known characters between two positions + insert a block at the first
   position.  Shown here:
     - edit is "delete then insert" with the deletion expressed as a scan over the list
       (edit_decompose), under the conditions every honest edit meets (from is not right of to;
       what the author knows is not newer than the edit's ticket);
     - two concurrent edits commute up to the tombstone times (edit_commute): same characters in
       the same order with the same "removed or not";
   The tombstone *time* of a character that two concurrent edits both delete can depend on the
   order (see del_time_order_dependent below); garbage collection looks at it, the content does
   not. *)
From Coq Require Import Lia.
From YV Require Import Base.Ticket Crdt.TextRGA Proofs.TicketProofs.

(* ------------------------------------------------------------------ *)
(* characters without the tombstone time                               *)
Definition cid_eqb (c : tch) (tk : ticket) (off : N) : bool := teqb (c_tk c) tk && N.eqb (c_off c) off.

Definition same_id (a b : tch) : Prop := c_tk a = c_tk b /\ c_off a = c_off b.

(* "is removed" view of a character *)
Definition shape_ch (c : tch) : ticket * N * N * bool :=
  (c_tk c, c_off c, c_val c, match c_rm c with Some _ => true | None => false end).
Definition shape (l : list tch) := map shape_ch l.

(* ------------------------------------------------------------------ *)
(* placing a block: the skip rule                                       *)
Fixpoint place (t : ticket) (blk l : list tch) : list tch :=
  match l with
  | c :: r => if tafter (c_tk c) t then c :: place t blk r else blk ++ l
  | [] => blk
  end.

Lemma skip_place t blk l : let '(s, r) := skip_newer t l in place t blk l = s ++ blk ++ r.
Proof.
  induction l as [|c r IH]; cbn [skip_newer place]; [now rewrite app_nil_r|].
  destruct (tafter (c_tk c) t); [|reflexivity].
  destruct (skip_newer t r) as [s r']. cbn [app]. now rewrite IH.
Qed.

Definition all_tk (t : ticket) (blk : list tch) : Prop := forall c, In c blk -> c_tk c = t.

Lemma place_over t1 b1 t2 b2 l : all_tk t2 b2 -> b2 <> [] -> t1 <> t2 ->
  place t1 b1 (b2 ++ l) = if tafter t2 t1 then b2 ++ place t1 b1 l else b1 ++ b2 ++ l.
Proof.
  intros H2 Hne Hd. destruct (tafter t2 t1) eqn:G.
  - clear Hne. induction b2 as [|c b IH]; [reflexivity|]. cbn [app place].
    rewrite (H2 c (or_introl eq_refl)), G. f_equal. apply IH. intros x Hx. apply H2. now right.
  - destruct b2 as [|c b]; [contradiction|]. cbn [app place]. rewrite (H2 c (or_introl eq_refl)), G. reflexivity.
Qed.

Lemma place_nil t l : place t [] l = l.
Proof. induction l as [|c r IH]; cbn [place]; [reflexivity|]. destruct (tafter _ _); [now rewrite IH|reflexivity]. Qed.

Lemma place_place t1 b1 t2 b2 l : t1 <> t2 -> all_tk t1 b1 -> all_tk t2 b2 ->
  place t1 b1 (place t2 b2 l) = place t2 b2 (place t1 b1 l).
Proof.
  intros Hne H1 H2.
  destruct b1 as [|x1 b1']; [now rewrite !place_nil|]. destruct b2 as [|x2 b2']; [now rewrite !place_nil|].
  set (b1 := x1 :: b1') in *. set (b2 := x2 :: b2') in *.
  assert (N1 : b1 <> []) by discriminate. assert (N2 : b2 <> []) by discriminate.
  induction l as [|x r IH].
  - cbn [place]. rewrite <- (app_nil_r b2) at 1. rewrite <- (app_nil_r b1) at 2.
    rewrite (place_over t1 b1 t2 b2 []) by assumption. rewrite (place_over t2 b2 t1 b1 []) by auto.
    cbn [place]. destruct (tafter_total_b t1 t2 Hne) as [G|G].
    + rewrite G. assert (G' : tafter t2 t1 = false) by (apply tafter_false; apply tafter_spec in G; now apply tgt_asym).
      rewrite G'. now rewrite !app_nil_r.
    + rewrite G. assert (G' : tafter t1 t2 = false) by (apply tafter_false; apply tafter_spec in G; now apply tgt_asym).
      rewrite G'. now rewrite !app_nil_r.
  - cbn [place]. destruct (tafter (c_tk x) t1) eqn:X1, (tafter (c_tk x) t2) eqn:X2; cbn [place]; rewrite ?X1, ?X2.
    + now rewrite IH.
    + (* x newer than t1 but not than t2: t2 is newer than t1 *)
      rewrite (place_over t1 b1 t2 b2 (x :: r)) by assumption.
      assert (G : tafter t2 t1 = true).
      { destruct (tafter_total_b t1 t2 Hne) as [G|G]; [|exact G].
        pose proof (tafter_trans_b _ _ _ X1 G). congruence. }
      rewrite G. cbn [place]. now rewrite X1.
    + rewrite (place_over t2 b2 t1 b1 (x :: r)) by auto.
      assert (G : tafter t1 t2 = true).
      { destruct (tafter_total_b t1 t2 Hne) as [G|G]; [exact G|].
        pose proof (tafter_trans_b _ _ _ X2 G). congruence. }
      rewrite G. cbn [place]. now rewrite X2.
    + rewrite (place_over t1 b1 t2 b2 (x :: r)) by assumption. rewrite (place_over t2 b2 t1 b1 (x :: r)) by auto.
      cbn [place]. rewrite X1, X2.
      destruct (tafter_total_b t1 t2 Hne) as [G|G].
      * rewrite G. assert (G' : tafter t2 t1 = false) by (apply tafter_false; apply tafter_spec in G; now apply tgt_asym).
        now rewrite G'.
      * rewrite G. assert (G' : tafter t1 t2 = false) by (apply tafter_false; apply tafter_spec in G; now apply tgt_asym).
        now rewrite G'.
Qed.

(* ------------------------------------------------------------------ *)
(* the two halves of an edit                                           *)
Fixpoint ins_ch (tk : ticket) (off : N) (t : ticket) (blk l : list tch) : option (list tch) :=
  match l with
  | [] => None
  | c :: r => if cid_eqb c tk off then Some (c :: place t blk r)
              else option_map (cons c) (ins_ch tk off t blk r)
  end.

Definition ins (p : tpos) (t : ticket) (blk l : list tch) : option (list tch) :=
  match p with
  | PHead => Some (place t blk l)
  | PAfter tk off => ins_ch tk off t blk l
  end.

Inductive sst := SBefore | SInside | SAfter.

Definition step_state (pf pt : tpos) (s : sst) (c : tch) : sst :=
  match s with
  | SBefore => if is_at pf c then (if is_at pt c then SAfter else SInside) else SBefore
  | SInside => if is_at pt c then SAfter else SInside
  | SAfter => SAfter
  end.

Definition emit (f : tch -> tch) (s : sst) (c : tch) : tch :=
  match s with SInside => f c | _ => c end.

Fixpoint scan (pf pt : tpos) (f : tch -> tch) (s : sst) (l : list tch) : list tch :=
  match l with
  | [] => []
  | c :: r => emit f s c :: scan pf pt f (step_state pf pt s c) r
  end.

Definition init_state (pf pt : tpos) : sst :=
  match pf with
  | PHead => match pt with PHead => SAfter | _ => SInside end
  | _ => SBefore
  end.

(* tombstone what lies after pf up to and including pt *)
Definition delr (pf pt : tpos) (f : tch -> tch) (l : list tch) : list tch := scan pf pt f (init_state pf pt) l.

(* ---- decompositions ---- *)
Lemma split_after_ch_spec tk off l a r : split_after_ch tk off l = Some (a, r) ->
  l = a ++ r /\ exists a' c, a = a' ++ [c] /\ cid_eqb c tk off = true /\ forall x, In x a' -> cid_eqb x tk off = false.
Proof.
  revert a r. induction l as [|x l IH]; intros a r H; cbn [split_after_ch] in H; [discriminate|].
  fold (cid_eqb x tk off) in H. destruct (cid_eqb x tk off) eqn:E.
  - injection H as <- <-. split; [reflexivity|]. exists [], x. repeat split; auto. intros ? [].
  - destruct (split_after_ch tk off l) as [[a0 r0]|] eqn:S; [|discriminate]. injection H as <- <-.
    destruct (IH _ _ eq_refl) as (-> & a' & c & -> & Hc & Hall). split; [reflexivity|].
    exists (x :: a'), c. repeat split; auto. intros y [<-|Hy]; auto.
Qed.

Lemma skip_newer_spec t l : let '(s, r) := skip_newer t l in
  l = s ++ r /\ (forall x, In x s -> tafter (c_tk x) t = true) /\
  match r with [] => True | x :: _ => tafter (c_tk x) t = false end.
Proof.
  induction l as [|c l IH]; cbn [skip_newer]; [split; [reflexivity|split; [intros ? []|exact I]]|].
  destruct (tafter (c_tk c) t) eqn:E.
  - destruct (skip_newer t l) as [s r]. destruct IH as (-> & Hs & Hr). split; [reflexivity|]. split; [|exact Hr].
    intros x [<-|Hx]; auto.
  - split; [reflexivity|]. split; [intros ? []|exact E].
Qed.

Lemma skip_newer_app_all t a b : (forall x, In x a -> tafter (c_tk x) t = true) ->
  skip_newer t (a ++ b) = let '(s, r) := skip_newer t b in (a ++ s, r).
Proof.
  induction a as [|c a IH]; intros H; cbn [app skip_newer]; [now destruct (skip_newer t b)|].
  rewrite (H c (or_introl eq_refl)). rewrite IH by (intros x Hx; apply H; now right).
  now destruct (skip_newer t b).
Qed.

Lemma skip_newer_app_stop t a x b : (forall y, In y a -> tafter (c_tk y) t = true) -> tafter (c_tk x) t = false ->
  skip_newer t (a ++ x :: b) = (a, x :: b).
Proof.
  intros Ha Hx. rewrite skip_newer_app_all by exact Ha. cbn [skip_newer]. rewrite Hx. now rewrite app_nil_r.
Qed.

Lemma prefix_split {A} (a1 r1 a2 r2 : list A) : a1 ++ r1 = a2 ++ r2 -> (length a1 <= length a2)%nat ->
  exists m, a2 = a1 ++ m /\ r1 = m ++ r2.
Proof.
  revert a2. induction a1 as [|x a1 IH]; intros a2 H Hl; cbn in *.
  - exists a2. split; [reflexivity|exact H].
  - destruct a2 as [|y a2]; cbn in *; [lia|]. injection H as <- H.
    destruct (IH a2 H ltac:(lia)) as (m & -> & ->). exists m. split; reflexivity.
Qed.

Definition at_end (p : tpos) (a : list tch) : Prop :=
  match p with
  | PHead => a = []
  | PAfter tk off => exists a' c, a = a' ++ [c] /\ cid_eqb c tk off = true /\ forall x, In x a' -> cid_eqb x tk off = false
  end.

Lemma split_after_spec p l a r : split_after p l = Some (a, r) -> l = a ++ r /\ at_end p a.
Proof.
  destruct p as [|tk off]; cbn [split_after at_end].
  - intros [= <- <-]. split; reflexivity.
  - intros H. destruct (split_after_ch_spec _ _ _ _ _ H) as (-> & a' & c & -> & Hc & Hall). split; [reflexivity|]. eauto.
Qed.

Lemma is_at_cid tk off c : is_at (PAfter tk off) c = cid_eqb c tk off.
Proof. reflexivity. Qed.

Lemma scan_app pf pt f s a b :
  scan pf pt f s (a ++ b) = scan pf pt f s a ++ scan pf pt f (fold_left (step_state pf pt) a s) b.
Proof. revert s. induction a as [|c a IH]; intros s; cbn [app scan fold_left]; [reflexivity|]. now rewrite IH. Qed.

Lemma scan_after pf pt f l : scan pf pt f SAfter l = l.
Proof. induction l as [|c l IH]; cbn [scan emit step_state]; [reflexivity|now rewrite IH]. Qed.

Lemma scan_before pf pt f l : (forall x, In x l -> is_at pf x = false) ->
  scan pf pt f SBefore l = l /\ fold_left (step_state pf pt) l SBefore = SBefore.
Proof.
  induction l as [|c l IH]; intros H; cbn [scan emit step_state fold_left]; [split; reflexivity|].
  rewrite (H c (or_introl eq_refl)). destruct IH as [A B]; [intros x Hx; apply H; now right|]. now rewrite A, B.
Qed.

Lemma scan_inside pf pt f l : (forall x, In x l -> is_at pt x = false) ->
  scan pf pt f SInside l = map f l /\ fold_left (step_state pf pt) l SInside = SInside.
Proof.
  induction l as [|c l IH]; intros H; cbn [scan emit step_state fold_left map]; [split; reflexivity|].
  rewrite (H c (or_introl eq_refl)). destruct IH as [A B]; [intros x Hx; apply H; now right|]. now rewrite A, B.
Qed.

(* a list that ends where p points: at most one character answers to p, the last *)
Lemma at_end_snoc_inv p a c : at_end p (a ++ [c]) ->
  match p with PHead => False | PAfter tk off => cid_eqb c tk off = true /\ forall x, In x a -> cid_eqb x tk off = false end.
Proof.
  destruct p as [|tk off]; cbn [at_end].
  - intros H. destruct a; discriminate.
  - intros (a' & c' & E & Hc & Hall). apply app_inj_tail in E. destruct E as [-> ->]. auto.
Qed.

Lemma snoc_cases {A} (l : list A) : l = [] \/ exists l' x, l = l' ++ [x].
Proof.
  induction l as [|y l IH]; [now left|right]. destruct IH as [->|(l' & x & ->)]; [exists [], y|exists (y :: l'), x]; reflexivity.
Qed.

Lemma delr_decomp pf pt f fa mid tr0 : at_end pf fa -> at_end pt (fa ++ mid) ->
  delr pf pt f (fa ++ mid ++ tr0) = fa ++ map f mid ++ tr0.
Proof.
  intros Hf Ht. unfold delr.
  (* the part after from, once the scan is past fa *)
  assert (Tail : forall mid' ct, mid = mid' ++ [ct] -> scan pf pt f SInside (mid ++ tr0) = map f mid ++ tr0).
  { intros mid' ct ->. rewrite app_assoc in Ht. pose proof (at_end_snoc_inv _ _ _ Ht) as Hl.
    destruct pt as [|tk off]; [destruct Hl|]. destruct Hl as [Hc Hall].
    rewrite <- app_assoc, scan_app.
    destruct (scan_inside pf (PAfter tk off) f mid') as [A B].
    { intros x Hx. rewrite is_at_cid. apply Hall, in_or_app. now right. }
    rewrite A, B. cbn [app scan emit step_state]. rewrite is_at_cid, Hc, scan_after.
    rewrite map_app. cbn [map]. now rewrite <- app_assoc. }
  destruct pf as [|ftk foff]; cbn [at_end] in Hf.
  - (* from the head *)
    subst fa. cbn [app] in *. destruct (snoc_cases mid) as [->|(mid' & ct & E)].
    + cbn [app map]. cbn [at_end] in Ht. destruct pt as [|tk off]; [cbn [init_state]; apply scan_after|].
      destruct Ht as (a' & c & E & _). destruct a'; discriminate.
    + assert (init_state PHead pt = SInside).
      { destruct pt; [|reflexivity]. cbn [at_end] in Ht. subst mid. destruct mid'; discriminate. }
      rewrite H. eapply Tail; eauto.
  - destruct Hf as (fa' & cf & -> & Hcf & Hfa'). cbn [init_state].
    rewrite <- app_assoc, scan_app.
    destruct (scan_before (PAfter ftk foff) pt f fa') as [A B].
    { intros x Hx. rewrite is_at_cid. now apply Hfa'. }
    rewrite A, B. cbn [app scan emit step_state]. rewrite is_at_cid, Hcf.
    rewrite <- (app_assoc fa' [cf]). cbn [app]. f_equal. f_equal.
    destruct (snoc_cases mid) as [->|(mid' & ct & E)].
    + (* to = from *)
      cbn [app map]. rewrite app_nil_r in Ht. pose proof (at_end_snoc_inv _ _ _ Ht) as Hl.
      destruct pt as [|tk off]; [destruct Hl|]. destruct Hl as [Hc _]. rewrite is_at_cid, Hc. apply scan_after.
    + assert (Hnot : is_at pt cf = false).
      { subst mid. rewrite app_assoc in Ht. pose proof (at_end_snoc_inv _ _ _ Ht) as Hl.
        destruct pt as [|tk off]; [reflexivity|]. destruct Hl as [_ Hall]. rewrite is_at_cid. apply Hall.
        apply in_or_app. left. apply in_or_app. right. now left. }
      rewrite Hnot. eapply Tail; eauto.
Qed.

Lemma ins_decomp pf t blk fa rest : at_end pf fa -> ins pf t blk (fa ++ rest) = Some (fa ++ place t blk rest).
Proof.
  destruct pf as [|tk off]; cbn [at_end ins].
  - now intros ->.
  - intros (fa' & c & -> & Hc & Hall). rewrite <- app_assoc. cbn [app].
    induction fa' as [|x fa' IH]; cbn [app ins_ch].
    + now rewrite Hc.
    + rewrite (Hall x (or_introl eq_refl)). rewrite IH by (intros y Hy; apply Hall; now right). reflexivity.
Qed.

Lemma del_ch_tk t v c : c_tk (del_ch t v c) = c_tk c.
Proof. unfold del_ch. destruct (known v (c_tk c)); [|reflexivity]. destruct (c_rm c); [destruct (_ && _)|]; reflexivity. Qed.
Lemma del_ch_off t v c : c_off (del_ch t v c) = c_off c.
Proof. unfold del_ch. destruct (known v (c_tk c)); [|reflexivity]. destruct (c_rm c); [destruct (_ && _)|]; reflexivity. Qed.
Lemma del_ch_unknown t v c : known v (c_tk c) = false -> del_ch t v c = c.
Proof. unfold del_ch. now intros ->. Qed.

Lemma skip_newer_map t f l : (forall c, c_tk (f c) = c_tk c) ->
  skip_newer t (map f l) = let '(s, r) := skip_newer t l in (map f s, map f r).
Proof.
  intros Hf. induction l as [|c l IH]; cbn [map skip_newer]; [reflexivity|].
  rewrite Hf. destruct (tafter (c_tk c) t); [|reflexivity].
  rewrite IH. now destruct (skip_newer t l).
Qed.

Lemma map_id_on {A} (f : A -> A) l : (forall x, In x l -> f x = x) -> map f l = l.
Proof. induction l as [|x l IH]; intros H; cbn [map]; [reflexivity|]. rewrite H by now left. rewrite IH; [reflexivity|]. intros y Hy. apply H. now right. Qed.

(* an honest edit: tombstone the range, then insert *)
Theorem edit_decompose pf pt vals t v l fa fr0 ta tr0 :
  split_after pf l = Some (fa, fr0) -> split_after pt l = Some (ta, tr0) -> (length fa <= length ta)%nat ->
  (forall c, In c l -> tafter (c_tk c) t = true -> known v (c_tk c) = false) ->
  edit pf pt vals t v l = ins pf t (mkblock t 0 vals) (delr pf pt (del_ch t v) l).
Proof.
  intros Sf St Hlen Hnew.
  destruct (split_after_spec _ _ _ _ Sf) as [Lf Ef]. destruct (split_after_spec _ _ _ _ St) as [Lt Et].
  assert (Hpre : fa ++ fr0 = ta ++ tr0) by congruence.
  destruct (prefix_split _ _ _ _ Hpre Hlen) as (mid & -> & ->).
  rewrite Lf. rewrite (delr_decomp pf pt _ fa mid tr0 Ef Et). rewrite (ins_decomp pf t _ fa _ Ef).
  set (D := del_ch t v). set (blk := mkblock t 0 vals).
  assert (Hid : forall x, In x l -> tafter (c_tk x) t = true -> D x = x).
  { intros x Hx Hn. apply del_ch_unknown. now apply Hnew. }
  unfold edit, find_pos. rewrite <- Lf, Sf, St.
  (* the two skips *)
  pose proof (skip_newer_spec t tr0) as S2. destruct (skip_newer t tr0) as [s2 tr] eqn:E2. destruct S2 as (-> & Hs2 & Htr).
  pose proof (skip_newer_spec t mid) as Sm. destruct (skip_newer t mid) as [sm rm] eqn:Em. destruct Sm as (-> & Hsm & Hrm).
  assert (Hin : forall x, In x (sm ++ rm) \/ In x (s2 ++ tr) -> In x l).
  { intros x Hx. rewrite Lf. apply in_or_app. right. apply in_or_app. exact Hx. }
  assert (Dsm : map D sm = sm).
  { apply map_id_on. intros x Hx. apply Hid; [apply Hin; left; apply in_or_app; now left|now apply Hsm]. }
  assert (Ds2 : map D s2 = s2).
  { apply map_id_on. intros x Hx. apply Hid; [apply Hin; right; apply in_or_app; now left|now apply Hs2]. }
  pose proof (skip_place t blk (map D (sm ++ rm) ++ s2 ++ tr)) as SP.
  destruct rm as [|x rm].
  - (* everything between the two positions is newer than the edit *)
    rewrite app_nil_r in *. rewrite (skip_newer_app_all t sm (s2 ++ tr) Hsm).
    assert (E2' : skip_newer t (s2 ++ tr) = (s2, tr)).
    { destruct tr as [|y tr]; [rewrite app_nil_r, <- (app_nil_r s2) at 1; rewrite (skip_newer_app_all t s2 [] Hs2); cbn; now rewrite app_nil_r|].
      now apply skip_newer_app_stop. }
    rewrite E2'. rewrite <- (app_assoc fa sm s2). rewrite Nat.leb_refl, Nat.sub_diag. cbn [firstn map app].
    rewrite Dsm in SP. rewrite (skip_newer_app_all t sm (s2 ++ tr) Hsm), E2' in SP. rewrite Dsm, SP.
    now rewrite <- !app_assoc.
  - rewrite <- (app_assoc sm (x :: rm)). rewrite <- app_comm_cons. rewrite (skip_newer_app_stop t sm x (rm ++ s2 ++ tr) Hsm Hrm).
    assert (E2' : skip_newer t (s2 ++ tr) = (s2, tr)).
    { destruct tr as [|y tr]; [rewrite app_nil_r, <- (app_nil_r s2) at 1; rewrite (skip_newer_app_all t s2 [] Hs2); cbn; now rewrite app_nil_r|].
      now apply skip_newer_app_stop. }
    assert (Hle : Nat.leb (length (fa ++ sm)) (length ((fa ++ sm ++ x :: rm) ++ s2)) = true).
    { apply Nat.leb_le. rewrite !app_length. cbn [length]. lia. }
    rewrite Hle.
    assert (Hn : (length ((fa ++ sm ++ x :: rm) ++ s2) - length (fa ++ sm) = length ((x :: rm) ++ s2))%nat).
    { rewrite !app_length. cbn [length]. lia. }
    rewrite Hn. change (x :: rm ++ s2 ++ tr) with ((x :: rm) ++ s2 ++ tr). rewrite (app_assoc (x :: rm) s2 tr).
    rewrite firstn_app, firstn_all, Nat.sub_diag. cbn [firstn]. rewrite app_nil_r.
    assert (RHS : map D (sm ++ x :: rm) ++ s2 ++ tr = sm ++ D x :: map D rm ++ s2 ++ tr).
    { rewrite map_app, Dsm. cbn [map]. rewrite <- app_assoc. reflexivity. }
    rewrite RHS in SP |- *.
    assert (Hx' : tafter (c_tk (D x)) t = false) by (unfold D; now rewrite del_ch_tk).
    rewrite (skip_newer_app_stop t sm (D x) _ Hsm Hx') in SP. rewrite SP.
    fold D. rewrite map_app, Ds2. cbn [map]. rewrite <- !app_assoc. cbn [app]. reflexivity.
Qed.

(* ------------------------------------------------------------------ *)
(* the specification form of an edit and its commutation                *)
Definition hedit (pf pt : tpos) (vals : list N) (t : ticket) (v : option vvec) (l : list tch) : option (list tch) :=
  ins pf t (mkblock t 0 vals) (delr pf pt (del_ch t v) l).

Definition rmb (c : tch) : bool := match c_rm c with Some _ => true | None => false end.

Lemma del_ch_rmb t v c : rmb (del_ch t v c) = rmb c || known v (c_tk c).
Proof.
  unfold del_ch, rmb. destruct (known v (c_tk c)); [|now rewrite orb_false_r].
  destruct (c_rm c) as [r|] eqn:E; [destruct (_ && _); cbn [c_rm]; rewrite ?E|]; reflexivity.
Qed.
Lemma del_ch_val t v c : c_val (del_ch t v c) = c_val c.
Proof. unfold del_ch. destruct (known v (c_tk c)); [|reflexivity]. destruct (c_rm c); [destruct (_ && _)|]; reflexivity. Qed.

Lemma shape_ch_eq a b : c_tk a = c_tk b -> c_off a = c_off b -> c_val a = c_val b -> rmb a = rmb b -> shape_ch a = shape_ch b.
Proof. unfold shape_ch, rmb. intros -> -> -> H. destruct (c_rm a), (c_rm b); cbn in *; congruence. Qed.

Lemma del_del_shape ta va tb vb c :
  shape_ch (del_ch ta va (del_ch tb vb c)) = shape_ch (del_ch tb vb (del_ch ta va c)).
Proof.
  apply shape_ch_eq; rewrite ?del_ch_tk, ?del_ch_off, ?del_ch_val, ?del_ch_rmb, ?del_ch_tk; try reflexivity.
  rewrite <- !orb_assoc. f_equal. apply orb_comm.
Qed.

(* emitted characters keep their ids, so the scan states do not depend on what was tombstoned before *)
Section Scans.
Variables (pfa pta pfb ptb : tpos) (fa fb : tch -> tch).
Hypothesis fa_tk : forall c, c_tk (fa c) = c_tk c.
Hypothesis fa_off : forall c, c_off (fa c) = c_off c.
Hypothesis fb_tk : forall c, c_tk (fb c) = c_tk c.
Hypothesis fb_off : forall c, c_off (fb c) = c_off c.
Hypothesis fab : forall c, shape_ch (fa (fb c)) = shape_ch (fb (fa c)).

Lemma is_at_emit p (f : tch -> tch) s c : (forall x, c_tk (f x) = c_tk x) -> (forall x, c_off (f x) = c_off x) ->
  is_at p (emit f s c) = is_at p c.
Proof. intros H1 H2. destruct p; [reflexivity|]. unfold is_at, emit. destruct s; now rewrite ?H1, ?H2. Qed.

Lemma step_emit pf pt (f g : tch -> tch) s s' c : (forall x, c_tk (g x) = c_tk x) -> (forall x, c_off (g x) = c_off x) ->
  step_state pf pt s (emit g s' c) = step_state pf pt s c.
Proof. intros H1 H2. unfold step_state. now rewrite !(is_at_emit _ g s' c H1 H2). Qed.

Lemma scan_scan_shape sa sb l :
  shape (scan pfa pta fa sa (scan pfb ptb fb sb l)) = shape (scan pfb ptb fb sb (scan pfa pta fa sa l)).
Proof.
  revert sa sb. induction l as [|c l IH]; intros sa sb; cbn [scan shape map]; [reflexivity|].
  rewrite (step_emit pfa pta fa fb sa sb c fb_tk fb_off). rewrite (step_emit pfb ptb fb fa sb sa c fa_tk fa_off).
  f_equal; [|apply IH].
  destruct sa, sb; cbn [emit]; try reflexivity. apply fab.
Qed.
End Scans.

(* ---- a scan passes over a freshly inserted block ---- *)
Section ScanIns.
Variables (pf pt : tpos) (f : tch -> tch) (t : ticket) (blk : list tch).
Hypothesis f_tk : forall c, c_tk (f c) = c_tk c.
Hypothesis f_off : forall c, c_off (f c) = c_off c.
Hypothesis blk_fix : forall c, In c blk -> f c = c.
Hypothesis blk_pf : forall c, In c blk -> is_at pf c = false.
Hypothesis blk_pt : forall c, In c blk -> is_at pt c = false.

Lemma scan_block s rest : scan pf pt f s (blk ++ rest) = blk ++ scan pf pt f s rest.
Proof.
  revert blk_fix blk_pf blk_pt. generalize blk as b. induction b as [|c b IH]; intros Hfix Hpf Hpt; cbn [app scan]; [reflexivity|].
  assert (E : emit f s c = c) by (destruct s; cbn [emit]; auto; apply Hfix; now left).
  assert (S : step_state pf pt s c = s).
  { unfold step_state. rewrite (Hpf c (or_introl eq_refl)), (Hpt c (or_introl eq_refl)). now destruct s. }
  rewrite E, S. f_equal. apply IH; intros x Hx; [apply Hfix|apply Hpf|apply Hpt]; now right.
Qed.

Lemma scan_place s l : scan pf pt f s (place t blk l) = place t blk (scan pf pt f s l).
Proof.
  revert s. induction l as [|c l IH]; intros s; cbn [place scan].
  - rewrite <- (app_nil_r blk) at 1. rewrite scan_block. cbn [scan]. now rewrite app_nil_r.
  - assert (Etk : c_tk (emit f s c) = c_tk c) by (destruct s; cbn [emit]; auto).
    rewrite Etk. destruct (tafter (c_tk c) t); cbn [scan]; [now rewrite IH|].
    rewrite scan_block. reflexivity.
Qed.

Lemma scan_ins_ch tk off s l :
  option_map (scan pf pt f s) (ins_ch tk off t blk l) = ins_ch tk off t blk (scan pf pt f s l).
Proof.
  revert s. induction l as [|c l IH]; intros s; cbn [ins_ch scan option_map]; [reflexivity|].
  assert (Eid : cid_eqb (emit f s c) tk off = cid_eqb c tk off).
  { unfold cid_eqb. destruct s; cbn [emit]; now rewrite ?f_tk, ?f_off. }
  rewrite Eid. destruct (cid_eqb c tk off); cbn [option_map scan].
  - now rewrite scan_place.
  - rewrite <- IH. destruct (ins_ch tk off t blk l); reflexivity.
Qed.

Lemma scan_ins p s l : option_map (scan pf pt f s) (ins p t blk l) = ins p t blk (scan pf pt f s l).
Proof. destruct p as [|tk off]; cbn [ins option_map]; [now rewrite scan_place|apply scan_ins_ch]. Qed.
End ScanIns.

(* ---- two insertions ---- *)
Definition obind {A B} (o : option A) (f : A -> option B) : option B := match o with Some x => f x | None => None end.

Lemma place_ins_ch t1 b1 tk off t2 b2 l : t1 <> t2 -> tk <> t1 -> all_tk t1 b1 -> all_tk t2 b2 ->
  ins_ch tk off t2 b2 (place t1 b1 l) = option_map (place t1 b1) (ins_ch tk off t2 b2 l).
Proof.
  intros Hne Htk H1 H2.
  assert (Hb1 : forall b, (forall c, In c b -> c_tk c = t1) -> forall rest,
            ins_ch tk off t2 b2 (b ++ rest) = option_map (app b) (ins_ch tk off t2 b2 rest)).
  { induction b as [|c b IHb]; intros Hb rest; cbn [app ins_ch].
    - destruct (ins_ch tk off t2 b2 rest); reflexivity.
    - assert (E : cid_eqb c tk off = false).
      { unfold cid_eqb. destruct (teqb (c_tk c) tk) eqn:E; [|reflexivity]. apply teqb_spec in E.
        rewrite (Hb c (or_introl eq_refl)) in E. congruence. }
      rewrite E, IHb by (intros x Hx; apply Hb; now right).
      destruct (ins_ch tk off t2 b2 rest); reflexivity. }
  induction l as [|x r IH]; cbn [place ins_ch].
  - rewrite <- (app_nil_r b1) at 1. rewrite (Hb1 b1 H1 []). reflexivity.
  - destruct (cid_eqb x tk off) eqn:Ex.
    + cbn [option_map]. destruct (tafter (c_tk x) t1) eqn:G; cbn [ins_ch place]; rewrite ?G, ?Ex.
      * now rewrite (place_place t1 b1 t2 b2) by assumption.
      * rewrite (Hb1 b1 H1 (x :: r)). cbn [ins_ch]. rewrite Ex. reflexivity.
    + destruct (tafter (c_tk x) t1) eqn:G; cbn [ins_ch].
      * rewrite Ex, IH. destruct (ins_ch tk off t2 b2 r); cbn [option_map place]; [now rewrite G|reflexivity].
      * rewrite (Hb1 b1 H1 (x :: r)). cbn [ins_ch]. rewrite Ex.
        destruct (ins_ch tk off t2 b2 r); cbn [option_map place]; [now rewrite G|reflexivity].
Qed.

Definition pos_tk_ne (p : tpos) (t : ticket) : Prop := match p with PHead => True | PAfter tk _ => tk <> t end.

Theorem ins_ins_commute p1 t1 b1 p2 t2 b2 l : t1 <> t2 -> all_tk t1 b1 -> all_tk t2 b2 ->
  pos_tk_ne p1 t2 -> pos_tk_ne p2 t1 ->
  obind (ins p1 t1 b1 l) (ins p2 t2 b2) = obind (ins p2 t2 b2 l) (ins p1 t1 b1).
Proof.
  intros Hne H1 H2 N1 N2.
  destruct p1 as [|k1 o1], p2 as [|k2 o2]; cbn [ins obind pos_tk_ne] in *.
  - now rewrite (place_place t1 b1 t2 b2) by assumption.
  - rewrite place_ins_ch by assumption. destruct (ins_ch k2 o2 t2 b2 l); reflexivity.
  - rewrite (place_ins_ch t2 b2 k1 o1 t1 b1) by auto. destruct (ins_ch k1 o1 t1 b1 l); reflexivity.
  - induction l as [|x r IH]; [reflexivity|]. cbn [ins_ch].
    destruct (cid_eqb x k1 o1) eqn:E1, (cid_eqb x k2 o2) eqn:E2; cbn [obind ins ins_ch option_map].
    + rewrite E1, E2. now rewrite (place_place t1 b1 t2 b2) by assumption.
    + rewrite E2. rewrite place_ins_ch by assumption.
      destruct (ins_ch k2 o2 t2 b2 r); cbn [option_map obind ins ins_ch]; [now rewrite E1|reflexivity].
    + rewrite E1. rewrite (place_ins_ch t2 b2 k1 o1 t1 b1) by auto.
      destruct (ins_ch k1 o1 t1 b1 r); cbn [option_map obind ins ins_ch]; [now rewrite E2|reflexivity].
    + destruct (ins_ch k1 o1 t1 b1 r) as [r1|] eqn:I1, (ins_ch k2 o2 t2 b2 r) as [r2|] eqn:I2;
        cbn [option_map obind ins ins_ch] in *; rewrite ?E1, ?E2.
      * rewrite <- IH. reflexivity.
      * rewrite IH. reflexivity.
      * rewrite <- IH. reflexivity.
      * reflexivity.
Qed.

(* ---- insertion looks at ids only ---- *)
Lemma place_shape t blk l1 l2 : shape l1 = shape l2 -> shape (place t blk l1) = shape (place t blk l2).
Proof.
  revert l2. induction l1 as [|c l1 IH]; intros [|d l2] H; cbn [shape map] in H; try discriminate; [reflexivity|].
  assert (Hc : shape_ch c = shape_ch d) by congruence. assert (Hl : map shape_ch l1 = map shape_ch l2) by congruence. clear H.
  cbn [place]. assert (Etk : c_tk c = c_tk d) by (unfold shape_ch in Hc; congruence).
  rewrite Etk. destruct (tafter (c_tk d) t); unfold shape in *; cbn [map].
  - rewrite Hc. f_equal. now apply IH.
  - rewrite !map_app. cbn [map]. now rewrite Hc, Hl.
Qed.

Lemma ins_shape p t blk l1 l2 : shape l1 = shape l2 ->
  option_map shape (ins p t blk l1) = option_map shape (ins p t blk l2).
Proof.
  destruct p as [|tk off]; cbn [ins option_map]; intros H; [f_equal; now apply place_shape|].
  revert l2 H. induction l1 as [|c l1 IH]; intros [|d l2] H; cbn [shape map] in H; try discriminate; [reflexivity|].
  assert (Hc : shape_ch c = shape_ch d) by congruence. assert (Hl : map shape_ch l1 = map shape_ch l2) by congruence. clear H.
  cbn [ins_ch].
  assert (Eid : cid_eqb c tk off = cid_eqb d tk off) by (unfold cid_eqb, shape_ch in *; congruence).
  rewrite Eid. destruct (cid_eqb d tk off); cbn [option_map].
  - unfold shape. cbn [map]. rewrite Hc. f_equal. f_equal. now apply place_shape.
  - specialize (IH l2 Hl). destruct (ins_ch tk off t blk l1), (ins_ch tk off t blk l2); cbn [option_map] in *; try discriminate; [|reflexivity].
    injection IH as IH. unfold shape in *. cbn [map]. now rewrite Hc, IH.
Qed.

Lemma mkblock_tk t off vals : all_tk t (mkblock t off vals).
Proof. revert off. induction vals as [|x r IH]; intros off c; cbn [mkblock]; [intros []|]. intros [<-|H]; [reflexivity|eapply IH; eauto]. Qed.

Lemma obind_map {A B C} (o : option A) (f : A -> B) (g : B -> option C) :
  obind (option_map f o) g = obind o (fun x => g (f x)).
Proof. destruct o; reflexivity. Qed.

Lemma obind_ins_shape o1 o2 p t b : option_map shape o1 = option_map shape o2 ->
  option_map shape (obind o1 (ins p t b)) = option_map shape (obind o2 (ins p t b)).
Proof.
  destruct o1 as [l1|], o2 as [l2|]; cbn [option_map obind]; intros H; try discriminate; [|reflexivity].
  apply ins_shape. congruence.
Qed.

Lemma is_at_other p c t : pos_tk_ne p t -> c_tk c = t -> is_at p c = false.
Proof.
  destruct p as [|tk off]; cbn [pos_tk_ne is_at]; [reflexivity|]. intros Hne Hc.
  destruct (teqb (c_tk c) tk) eqn:E; [|reflexivity]. apply teqb_spec in E. congruence.
Qed.

(* two concurrent edits, in either order: the same characters in the same order, the same ones removed *)
Theorem hedit_commute pfa pta valsa ta va pfb ptb valsb tb vb l :
  ta <> tb ->
  pos_tk_ne pfa tb -> pos_tk_ne pta tb -> pos_tk_ne pfb ta -> pos_tk_ne ptb ta ->
  known va tb = false -> known vb ta = false ->
  option_map shape (obind (hedit pfa pta valsa ta va l) (hedit pfb ptb valsb tb vb)) =
  option_map shape (obind (hedit pfb ptb valsb tb vb l) (hedit pfa pta valsa ta va)).
Proof.
  intros Hne Nfa Nta Nfb Ntb Ka Kb. unfold hedit.
  set (Ba := mkblock ta 0 valsa). set (Bb := mkblock tb 0 valsb).
  set (Da := delr pfa pta (del_ch ta va)). set (Db := delr pfb ptb (del_ch tb vb)).
  assert (HBa : all_tk ta Ba) by apply mkblock_tk. assert (HBb : all_tk tb Bb) by apply mkblock_tk.
  (* each scan passes over the other's block *)
  assert (Sb : forall X, option_map Db (ins pfa ta Ba X) = ins pfa ta Ba (Db X)).
  { intros X. unfold Db, delr. apply scan_ins; [apply del_ch_tk|apply del_ch_off| | |].
    - intros c Hc. apply del_ch_unknown. now rewrite (HBa c Hc).
    - intros c Hc. eapply is_at_other; eauto.
    - intros c Hc. eapply is_at_other; eauto. }
  assert (Sa : forall X, option_map Da (ins pfb tb Bb X) = ins pfb tb Bb (Da X)).
  { intros X. unfold Da, delr. apply scan_ins; [apply del_ch_tk|apply del_ch_off| | |].
    - intros c Hc. apply del_ch_unknown. now rewrite (HBb c Hc).
    - intros c Hc. eapply is_at_other; eauto.
    - intros c Hc. eapply is_at_other; eauto. }
  change (fun x => ins pfb tb Bb (delr pfb ptb (del_ch tb vb) x)) with (fun x => ins pfb tb Bb (Db x)).
  rewrite <- (obind_map (ins pfa ta Ba (Da l)) Db (ins pfb tb Bb)), Sb.
  change (hedit pfa pta valsa ta va) with (fun x => ins pfa ta Ba (Da x)).
  rewrite <- (obind_map (ins pfb tb Bb (Db l)) Da (ins pfa ta Ba)), Sa.
  rewrite (ins_ins_commute pfb tb Bb pfa ta Ba (Da (Db l))) by auto.
  apply obind_ins_shape. apply ins_shape.
  unfold Da, Db, delr. apply scan_scan_shape; try apply del_ch_tk; try apply del_ch_off.
  intros c. symmetry. apply del_del_shape.
Qed.

(* ------------------------------------------------------------------ *)
(* honest edits stay honest while other edits are executed              *)
Definition honest (pf pt : tpos) (t : ticket) (v : option vvec) (l : list tch) : Prop :=
  (exists fa mid tr0, l = fa ++ mid ++ tr0 /\ at_end pf fa /\ at_end pt (fa ++ mid)) /\
  (forall c, In c l -> tafter (c_tk c) t = true -> known v (c_tk c) = false).

Lemma split_after_of_decomp p a r : at_end p a -> split_after p (a ++ r) = Some (a, r).
Proof.
  destruct p as [|tk off]; cbn [at_end split_after]; [now intros ->|].
  intros (a' & c & -> & Hc & Hall). rewrite <- app_assoc. cbn [app].
  induction a' as [|x a' IH]; cbn [app split_after_ch].
  - fold (cid_eqb c tk off). now rewrite Hc.
  - fold (cid_eqb x tk off). rewrite (Hall x (or_introl eq_refl)). rewrite IH by (intros y Hy; apply Hall; now right). reflexivity.
Qed.

Theorem edit_is_hedit pf pt vals t v l : honest pf pt t v l -> edit pf pt vals t v l = hedit pf pt vals t v l.
Proof.
  intros [(fa & mid & tr0 & -> & Ef & Et) Hk]. unfold hedit.
  eapply (edit_decompose pf pt vals t v _ fa (mid ++ tr0) (fa ++ mid) tr0).
  - now apply split_after_of_decomp.
  - rewrite app_assoc. now apply split_after_of_decomp.
  - rewrite app_length. lia.
  - exact Hk.
Qed.

(* scans keep ids *)
Lemma at_end_scan pf pt f s p a : (forall c, c_tk (f c) = c_tk c) -> (forall c, c_off (f c) = c_off c) ->
  at_end p a -> at_end p (scan pf pt f s a).
Proof.
  intros Htk Hoff. destruct p as [|tk off]; cbn [at_end]; [now intros ->|].
  intros (a' & c & -> & Hc & Hall). rewrite scan_app. cbn [scan].
  eexists _, _. split; [reflexivity|]. split.
  - unfold cid_eqb in *. destruct (fold_left _ a' s); cbn [emit]; now rewrite ?Htk, ?Hoff.
  - clear Hc. revert s. induction a' as [|x a' IH]; intros s y; cbn [scan]; [intros []|].
    intros [<-|Hy].
    + unfold cid_eqb. destruct s; cbn [emit]; rewrite ?Htk, ?Hoff; apply (Hall x (or_introl eq_refl)).
    + eapply IH; eauto. intros z Hz. apply Hall. now right.
Qed.

Lemma scan_in_tk pf pt f s l c : (forall c, c_tk (f c) = c_tk c) -> In c (scan pf pt f s l) -> exists c0, In c0 l /\ c_tk c = c_tk c0.
Proof.
  intros Htk. revert s. induction l as [|x l IH]; intros s; cbn [scan]; [intros []|].
  intros [<-|H].
  - exists x. split; [now left|]. destruct s; cbn [emit]; now rewrite ?Htk.
  - destruct (IH _ H) as (c0 & H0 & E). exists c0. split; [now right|exact E].
Qed.

(* insertion of a block somewhere *)
Inductive inserted (blk : list tch) : list tch -> list tch -> Prop :=
| ins_here l : inserted blk l (blk ++ l)
| ins_later c l l' : inserted blk l l' -> inserted blk (c :: l) (c :: l').

Lemma place_inserted t blk l : inserted blk l (place t blk l).
Proof.
  induction l as [|c l IH]; cbn [place]; [rewrite <- (app_nil_r blk) at 2; constructor|].
  destruct (tafter _ _); [now constructor|constructor].
Qed.

Lemma ins_inserted p t blk l r : ins p t blk l = Some r -> inserted blk l r.
Proof.
  destruct p as [|tk off]; cbn [ins]; [intros [= <-]; apply place_inserted|].
  revert r. induction l as [|c l IH]; intros r; cbn [ins_ch]; [discriminate|].
  destruct (cid_eqb c tk off).
  - intros [= <-]. constructor. apply place_inserted.
  - destruct (ins_ch tk off t blk l); [|discriminate]. intros [= <-]. constructor. now apply IH.
Qed.

Lemma inserted_in blk l r c : inserted blk l r -> In c r -> In c blk \/ In c l.
Proof.
  induction 1 as [l|x l l' H IH]; intros Hc.
  - apply in_app_or in Hc. tauto.
  - destruct Hc as [<-|Hc]; [right; now left|]. destruct (IH Hc); [now left|right; now right].
Qed.

(* a block inserted into X ++ Y lands strictly inside X (its last character stays last) or in Y *)
Lemma inserted_app blk X Y r : inserted blk (X ++ Y) r ->
  (exists X1 x X2, X = X1 ++ x :: X2 /\ r = (X1 ++ blk ++ x :: X2) ++ Y) \/ (exists Y', r = X ++ Y' /\ inserted blk Y Y').
Proof.
  revert r. induction X as [|c X IH]; intros r H; cbn [app] in *.
  - right. exists r. split; [reflexivity|exact H].
  - inversion H as [l0 E1 E2|c0 l0 l' H' E1 E2]; subst.
    + left. exists [], c, X. split; [reflexivity|]. cbn [app]. now rewrite <- app_assoc.
    + destruct (IH _ H') as [(X1 & x & X2 & -> & ->)|(Y' & -> & HY)].
      * left. exists (c :: X1), x, X2. split; reflexivity.
      * right. exists Y'. split; [reflexivity|exact HY].
Qed.

Lemma at_end_inserted p blk X1 x X2 : (forall c, In c blk -> is_at p c = false) ->
  at_end p (X1 ++ x :: X2) -> at_end p (X1 ++ blk ++ x :: X2).
Proof.
  intros Hb. destruct p as [|tk off]; cbn [at_end]; [intros H; destruct X1; discriminate|].
  intros (a' & c & E & Hc & Hall).
  (* the last character of x :: X2 is c *)
  destruct (snoc_cases X2) as [->|(X2' & z & ->)].
  - assert (E' : X1 ++ [x] = a' ++ [c]) by exact E. apply app_inj_tail in E'. destruct E' as [<- <-].
    exists (X1 ++ blk), x. split; [now rewrite <- app_assoc|]. split; [exact Hc|].
    intros y Hy. apply in_app_or in Hy. destruct Hy as [Hy|Hy]; [now apply Hall|]. rewrite <- is_at_cid. now apply Hb.
  - assert (E' : (X1 ++ x :: X2') ++ [z] = a' ++ [c]) by (rewrite <- app_assoc; exact E).
    apply app_inj_tail in E'. destruct E' as [<- <-].
    exists (X1 ++ blk ++ x :: X2'), z. split; [now rewrite <- !app_assoc|]. split; [exact Hc|].
    intros y Hy. apply in_app_or in Hy. destruct Hy as [Hy|Hy]; [apply Hall, in_or_app; now left|].
    apply in_app_or in Hy. destruct Hy as [Hy|Hy]; [rewrite <- is_at_cid; now apply Hb|].
    apply Hall, in_or_app. now right.
Qed.

Lemma honest_after_insert pf pt blk l r : 
  (forall c, In c blk -> is_at pf c = false) -> (forall c, In c blk -> is_at pt c = false) ->
  (exists fa mid tr0, l = fa ++ mid ++ tr0 /\ at_end pf fa /\ at_end pt (fa ++ mid)) ->
  inserted blk l r ->
  exists fa mid tr0, r = fa ++ mid ++ tr0 /\ at_end pf fa /\ at_end pt (fa ++ mid).
Proof.
  intros Hbf Hbt (fa & mid & tr0 & -> & Ef & Et) Hins.
  destruct (inserted_app blk fa (mid ++ tr0) r Hins) as [(X1 & x & X2 & -> & ->)|(Y' & -> & HY)].
  - (* inside fa *)
    exists (X1 ++ blk ++ x :: X2), mid, tr0. split; [reflexivity|]. split; [now apply at_end_inserted|].
    (* the end of fa ++ mid: unchanged unless mid is empty *)
    destruct (snoc_cases mid) as [->|(m' & z & ->)].
    + rewrite app_nil_r in *. now apply at_end_inserted.
    + replace ((X1 ++ blk ++ x :: X2) ++ m' ++ [z]) with (X1 ++ blk ++ x :: (X2 ++ m' ++ [z])) by (now rewrite <- !app_assoc).
      apply at_end_inserted; [exact Hbt|]. now rewrite <- !app_assoc in Et.
  - destruct (inserted_app blk mid tr0 Y' HY) as [(M1 & x & M2 & -> & ->)|(R' & -> & HR)].
    + exists fa, (M1 ++ blk ++ x :: M2), tr0. split; [reflexivity|]. split; [exact Ef|].
      replace (fa ++ M1 ++ blk ++ x :: M2) with ((fa ++ M1) ++ blk ++ x :: M2) by (now rewrite <- app_assoc).
      apply at_end_inserted; [exact Hbt|]. now rewrite <- app_assoc.
    + exists fa, mid, R'. split; [reflexivity|]. split; assumption.
Qed.

Theorem honest_preserved pfa pta ta va pfb ptb valsb tb vb l lb :
  honest pfa pta ta va l -> hedit pfb ptb valsb tb vb l = Some lb ->
  pos_tk_ne pfa tb -> pos_tk_ne pta tb -> known va tb = false ->
  honest pfa pta ta va lb.
Proof.
  intros [(fa & mid & tr0 & -> & Ef & Et) Hk] Hb Nfa Nta Ka. unfold hedit in Hb.
  set (Bb := mkblock tb 0 valsb) in *. assert (HBb : all_tk tb Bb) by apply mkblock_tk.
  pose proof (ins_inserted _ _ _ _ _ Hb) as Hins.
  split.
  - apply (honest_after_insert pfa pta Bb (delr pfb ptb (del_ch tb vb) (fa ++ mid ++ tr0)) lb).
    + intros c Hc. eapply is_at_other; eauto.
    + intros c Hc. eapply is_at_other; eauto.
    + unfold delr. rewrite !scan_app. eexists _, _, _. split; [reflexivity|]. split.
      * apply at_end_scan; [apply del_ch_tk|apply del_ch_off|exact Ef].
      * rewrite <- scan_app. apply at_end_scan; [apply del_ch_tk|apply del_ch_off|exact Et].
    + exact Hins.
  - intros c Hc Hn. destruct (inserted_in _ _ _ _ Hins Hc) as [Hb'|Hl].
    + now rewrite (HBb c Hb').
    + unfold delr in Hl. destruct (scan_in_tk _ _ _ _ _ _ (del_ch_tk tb vb) Hl) as (c0 & H0 & E).
      rewrite E in *. now apply Hk.
Qed.

(* THE COMMUTATION OF TWO CONCURRENT EDITS, on the model function that is compared with the code *)
Theorem edit_commute pfa pta valsa ta va pfb ptb valsb tb vb l :
  ta <> tb ->
  pos_tk_ne pfa tb -> pos_tk_ne pta tb -> pos_tk_ne pfb ta -> pos_tk_ne ptb ta ->
  known va tb = false -> known vb ta = false ->
  honest pfa pta ta va l -> honest pfb ptb tb vb l ->
  option_map shape (obind (edit pfa pta valsa ta va l) (edit pfb ptb valsb tb vb)) =
  option_map shape (obind (edit pfb ptb valsb tb vb l) (edit pfa pta valsa ta va)).
Proof.
  intros Hne Nfa Nta Nfb Ntb Ka Kb Ha Hb.
  rewrite (edit_is_hedit _ _ valsa _ _ _ Ha), (edit_is_hedit _ _ valsb _ _ _ Hb).
  assert (L : obind (hedit pfa pta valsa ta va l) (edit pfb ptb valsb tb vb) =
              obind (hedit pfa pta valsa ta va l) (hedit pfb ptb valsb tb vb)).
  { destruct (hedit pfa pta valsa ta va l) as [la|] eqn:E; [|reflexivity]. cbn [obind].
    apply edit_is_hedit. eapply honest_preserved; eauto. }
  assert (R : obind (hedit pfb ptb valsb tb vb l) (edit pfa pta valsa ta va) =
              obind (hedit pfb ptb valsb tb vb l) (hedit pfa pta valsa ta va)).
  { destruct (hedit pfb ptb valsb tb vb l) as [lb|] eqn:E; [|reflexivity]. cbn [obind].
    apply edit_is_hedit. eapply honest_preserved; eauto. }
  rewrite L, R. now apply hedit_commute.
Qed.

(* ------------------------------------------------------------------ *)
(* the premises are met, and the tombstone time can depend on the order  *)
Definition ex_r : ticket := mkT 2 2%N 0%N.                       (* an earlier deletion, by actor 2 *)
Definition ex_text : list tch :=
  [ mkCh (mkT 1 1%N 0%N) 0 97 None; mkCh (mkT 1 1%N 0%N) 1 98 (Some ex_r); mkCh (mkT 1 1%N 0%N) 2 99 None ].
(* actor 1 has seen the deletion, deletes "bc" and types "x" *)
Definition ex_ta : ticket := mkT 5 1%N 0%N.
Definition ex_va : option vvec := Some [(1%N, 5); (2%N, 2)].
(* actor 3 has not, deletes "ab" and types "yz" *)
Definition ex_tb : ticket := mkT 3 3%N 0%N.
Definition ex_vb : option vvec := Some [(1%N, 1); (3%N, 3)].
Definition ex_a := edit (PAfter (mkT 1 1%N 0%N) 0) (PAfter (mkT 1 1%N 0%N) 2) [120%N] ex_ta ex_va.
Definition ex_b := edit PHead (PAfter (mkT 1 1%N 0%N) 1) [121%N; 122%N] ex_tb ex_vb.

Example edit_premises_hold :
  honest (PAfter (mkT 1 1%N 0%N) 0) (PAfter (mkT 1 1%N 0%N) 2) ex_ta ex_va ex_text /\
  honest PHead (PAfter (mkT 1 1%N 0%N) 1) ex_tb ex_vb ex_text /\
  known ex_va ex_tb = false /\ known ex_vb ex_ta = false /\
  option_map visible (obind (ex_a ex_text) ex_b) = Some [121; 122; 120]%N /\
  option_map visible (obind (ex_b ex_text) ex_a) = Some [121; 122; 120]%N.
Proof.
  split; [|split]; [| |repeat split; vm_compute; reflexivity].
  - split.
    + exists [mkCh (mkT 1 1%N 0%N) 0 97 None], [mkCh (mkT 1 1%N 0%N) 1 98 (Some ex_r); mkCh (mkT 1 1%N 0%N) 2 99 None], [].
      split; [reflexivity|]. split.
      * exists [], (mkCh (mkT 1 1%N 0%N) 0 97 None). repeat split. intros ? [].
      * exists [mkCh (mkT 1 1%N 0%N) 0 97 None; mkCh (mkT 1 1%N 0%N) 1 98 (Some ex_r)], (mkCh (mkT 1 1%N 0%N) 2 99 None).
        repeat split. intros x [<-|[<-|[]]]; reflexivity.
    + intros c [<-|[<-|[<-|[]]]]; vm_compute; discriminate.
  - split.
    + exists [], [mkCh (mkT 1 1%N 0%N) 0 97 None; mkCh (mkT 1 1%N 0%N) 1 98 (Some ex_r)], [mkCh (mkT 1 1%N 0%N) 2 99 None].
      split; [reflexivity|]. split; [reflexivity|].
      exists [mkCh (mkT 1 1%N 0%N) 0 97 None], (mkCh (mkT 1 1%N 0%N) 1 98 (Some ex_r)). repeat split. intros x [<-|[]]; reflexivity.
    + intros c [<-|[<-|[<-|[]]]]; vm_compute; discriminate.
Qed.

(* the same two edits: the character both delete ends with different tombstone times *)
Theorem del_time_order_dependent :
  option_map (map c_rm) (obind (ex_a ex_text) ex_b) <> option_map (map c_rm) (obind (ex_b ex_text) ex_a) /\
  option_map shape (obind (ex_a ex_text) ex_b) = option_map shape (obind (ex_b ex_text) ex_a).
Proof. split; [vm_compute; discriminate|vm_compute; reflexivity]. Qed.
