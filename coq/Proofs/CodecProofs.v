(* CodecProofs.v — the version-vector byte codec: round trip, bounded work,
   rejection of every truncation; the ticket-shape table. *)
From Coq Require Import List ZArith Bool Lia.
From Coq Require String.
From YV Require Import Codec.VVBytes Codec.OpShape.
Import ListNotations.
Open Scope Z_scope.

(* ---------- big-endian integers ---------- *)
Lemma be_value_app l b : be_value (l ++ [b]) = be_value l * 256 + b.
Proof. unfold be_value. now rewrite fold_left_app. Qed.

Lemma length_be_bytes n u : length (be_bytes n u) = n.
Proof. revert u. induction n as [|n IH]; intros u; cbn [be_bytes]; [reflexivity|]. rewrite app_length, IH. cbn. lia. Qed.

Lemma be_value_be_bytes n u : be_value (be_bytes n u) = u mod 256 ^ Z.of_nat n.
Proof.
  revert u. induction n as [|n IH]; intros u.
  - cbn. now rewrite Z.mod_1_r.
  - cbn [be_bytes]. rewrite be_value_app, IH.
    replace (Z.of_nat (S n)) with (1 + Z.of_nat n) by lia.
    rewrite Z.pow_add_r, Z.pow_1_r by lia.
    rewrite (Z.rem_mul_r u 256 (256 ^ Z.of_nat n)) by (try lia; apply Z.pow_nonzero; lia).
    lia.
Qed.

Definition in_int64 (v : Z) : Prop := - two63 <= v < two63.

Lemma to_int64_mod v : in_int64 v -> to_int64 (v mod two64) = v.
Proof.
  unfold in_int64, to_int64, two63, two64. intros H.
  destruct (Z_lt_dec v 0) as [Hn|Hp].
  - assert (E : v mod 18446744073709551616 = v + 18446744073709551616).
    { symmetry. apply Z.mod_unique with (q := -1); lia. }
    rewrite E. destruct (Z.ltb_spec (v + 18446744073709551616) 9223372036854775808); lia.
  - rewrite Z.mod_small by lia. destruct (Z.ltb_spec v 9223372036854775808); lia.
Qed.

Lemma int64_value v : in_int64 v -> to_int64 (be_value (int64_bytes v)) = v.
Proof.
  intros H. unfold int64_bytes. rewrite be_value_be_bytes.
  change (256 ^ Z.of_nat 8) with two64.
  rewrite Z.mod_mod by (unfold two64; lia). now apply to_int64_mod.
Qed.

Lemma length_int64_bytes v : length (int64_bytes v) = 8%nat.
Proof. apply length_be_bytes. Qed.

(* ---------- reading ---------- *)
Lemma read_full_app n a r : length a = n -> read_full n (a ++ r) = Some (a, r).
Proof.
  intros H. unfold read_full. rewrite app_length, H.
  assert (Nat.leb n (n + length r) = true) as -> by (apply Nat.leb_le; lia).
  subst n. now rewrite firstn_app, Nat.sub_diag, firstn_all, skipn_app, Nat.sub_diag, skipn_all, app_nil_r.
Qed.

Lemma read_full_short n l : (length l < n)%nat -> read_full n l = None.
Proof. intros H. unfold read_full. now apply Nat.leb_gt in H as ->. Qed.

Lemma read_full_length n l a r : read_full n l = Some (a, r) -> (length l = n + length r)%nat.
Proof.
  unfold read_full. destruct (Nat.leb n (length l)) eqn:E; [|discriminate].
  intros H. injection H as <- <-. apply Nat.leb_le in E. rewrite skipn_length. lia.
Qed.

Lemma read_int64_app v r : in_int64 v -> read_int64 (int64_bytes v ++ r) = Some (v, r).
Proof.
  intros H. unfold read_int64. rewrite read_full_app by apply length_int64_bytes.
  now rewrite int64_value.
Qed.

Lemma read_int64_length l v r : read_int64 l = Some (v, r) -> (length l = 8 + length r)%nat.
Proof.
  unfold read_int64. destruct (read_full 8 l) as [[bs r0]|] eqn:E; [|discriminate].
  intros H. injection H as _ <-. now apply read_full_length in E.
Qed.

(* ---------- bounded work: the entry count never drives the loop beyond the input ---------- *)
Lemma read_entries_fuel fuel : forall count l acc, (length l < fuel)%nat -> read_entries fuel count l acc <> DecOutOfFuel.
Proof.
  induction fuel as [|f IH]; intros count l acc Hl; [lia|].
  cbn [read_entries]. destruct (count <=? 0); [discriminate|].
  destruct (read_full 12 l) as [[a r]|] eqn:E1; [|discriminate].
  destruct (read_int64 r) as [[v r']|] eqn:E2; [|discriminate].
  apply IH. apply read_full_length in E1. apply read_int64_length in E2. lia.
Qed.

Theorem vv_decode_total l : vv_decode l <> DecOutOfFuel.
Proof.
  unfold vv_decode. destruct (read_int64 l) as [[count r]|]; [|discriminate].
  apply read_entries_fuel. lia.
Qed.

(* ---------- round trip ---------- *)
Definition wf_entry (e : actor * Z) : Prop := length (fst e) = 12%nat /\ in_int64 (snd e).

Definition build (acc m : vvmap) : vvmap := fold_left (fun a e => vset a (fst e) (snd e)) m acc.

Lemma read_entries_encode m : forall fuel acc rest,
  Forall wf_entry m -> (length m < fuel)%nat ->
  read_entries fuel (Z.of_nat (length m)) (flat_map entry_bytes m ++ rest) acc =
  read_entries (fuel - length m) 0 rest (build acc m).
Proof.
  induction m as [|[a v] m IH]; intros fuel acc rest Hwf Hf.
  - cbn. now rewrite Nat.sub_0_r.
  - inversion Hwf as [|? ? [Ha Hv] Hwf']; subst. cbn [fst snd] in *.
    destruct fuel as [|f]; [cbn in Hf; lia|].
    cbn [read_entries length].
    destruct (Z.leb_spec (Z.of_nat (S (length m))) 0) as [H0|_]; [lia|].
    cbn [flat_map]. unfold entry_bytes at 1. cbn [fst snd]. rewrite <- !app_assoc.
    rewrite read_full_app by exact Ha. rewrite read_int64_app by exact Hv.
    replace (Z.of_nat (S (length m)) - 1) with (Z.of_nat (length m)) by lia.
    rewrite IH by (try assumption; cbn in Hf; lia).
    replace (S f - S (length m))%nat with (f - length m)%nat by lia. reflexivity.
Qed.

Lemma length_flat_entries m : Forall wf_entry m -> length (flat_map entry_bytes m) = (20 * length m)%nat.
Proof.
  induction 1 as [|[a v] m [Ha _] _ IH]; [reflexivity|].
  cbn [flat_map length]. unfold entry_bytes at 1. cbn [fst snd] in *.
  rewrite !app_length, Ha, length_int64_bytes, IH. lia.
Qed.

Theorem vv_roundtrip m : Forall wf_entry m -> Z.of_nat (length m) < two63 ->
  vv_decode (vv_encode m) = DecOk (build [] m).
Proof.
  intros Hwf Hlen. unfold vv_decode, vv_encode.
  rewrite read_int64_app by (unfold in_int64, two63 in *; lia).
  rewrite <- (app_nil_r (flat_map entry_bytes m)) at 2.
  rewrite read_entries_encode by (try assumption; rewrite length_flat_entries by assumption; lia).
  destruct (S (length (flat_map entry_bytes m)) - length m)%nat; reflexivity.
Qed.

(* with distinct actors (a Go map has distinct keys) the decoded map is the encoded one *)
Lemma actor_eqb_eq a b : actor_eqb a b = true <-> a = b.
Proof.
  revert b. induction a as [|x a IH]; intros [|y b]; cbn; try (split; [discriminate|discriminate]); [tauto|].
  rewrite andb_true_iff, IH, Z.eqb_eq. split; [intros [-> ->]; reflexivity|intros H; injection H; auto].
Qed.

Lemma vset_fresh acc a v : ~ In a (map fst acc) -> vset acc a v = acc ++ [(a, v)].
Proof.
  induction acc as [|[b w] acc IH]; intros H; [reflexivity|]. cbn in *.
  destruct (actor_eqb a b) eqn:E; [apply actor_eqb_eq in E; subst; tauto|].
  f_equal. apply IH. tauto.
Qed.

Lemma build_distinct m : forall acc, NoDup (map fst (acc ++ m)) -> build acc m = acc ++ m.
Proof.
  induction m as [|[a v] m IH]; intros acc H; [now rewrite app_nil_r|].
  cbn [build fold_left fst snd]. fold (build (vset acc a v) m).
  assert (Hf : ~ In a (map fst acc)).
  { rewrite map_app in H. cbn in H. apply NoDup_remove_2 in H. intros Hin. apply H. apply in_or_app. now left. }
  rewrite vset_fresh by exact Hf. rewrite IH; rewrite <- app_assoc; [reflexivity|exact H].
Qed.

Theorem vv_roundtrip_exact m : Forall wf_entry m -> NoDup (map fst m) -> Z.of_nat (length m) < two63 ->
  vv_decode (vv_encode m) = DecOk m.
Proof. intros Hwf Hnd Hlen. rewrite vv_roundtrip by assumption. now rewrite build_distinct. Qed.

(* ---------- every truncation of an encoding is rejected ---------- *)
Lemma read_entries_truncated m : forall fuel acc k, Forall wf_entry m ->
  (k < length (flat_map entry_bytes m))%nat -> (k < fuel)%nat ->
  read_entries fuel (Z.of_nat (length m)) (firstn k (flat_map entry_bytes m)) acc = DecErr.
Proof.
  induction m as [|[a v] m IH]; intros fuel acc k Hwf Hk Hf; [cbn in Hk; lia|].
  inversion Hwf as [|? ? [Ha Hv] Hwf']; subst. cbn [fst snd] in *.
  destruct fuel as [|f]; [lia|]. cbn [read_entries length].
  destruct (Z.leb_spec (Z.of_nat (S (length m))) 0) as [H0|_]; [lia|].
  cbn [flat_map] in *. unfold entry_bytes at 1 in Hk. unfold entry_bytes at 1. cbn [fst snd] in *.
  rewrite <- app_assoc in *.
  destruct (Nat.lt_ge_cases k 12) as [Hs|Hge].
  - rewrite read_full_short; [reflexivity|]. rewrite firstn_length. lia.
  - rewrite firstn_app, Ha. rewrite (firstn_all2 a) by lia.
    rewrite read_full_app by exact Ha.
    destruct (Nat.lt_ge_cases (k - 12) 8) as [Hs2|Hge2].
    + unfold read_int64. rewrite read_full_short; [reflexivity|]. rewrite firstn_length. lia.
    + rewrite firstn_app, length_int64_bytes. rewrite (firstn_all2 (int64_bytes v)) by (rewrite length_int64_bytes; lia).
      rewrite read_int64_app by exact Hv.
      replace (Z.of_nat (S (length m)) - 1) with (Z.of_nat (length m)) by lia.
      apply IH; [assumption| |lia].
      rewrite !app_length, Ha, length_int64_bytes in Hk. lia.
Qed.

Theorem vv_truncation_rejected m k : Forall wf_entry m -> Z.of_nat (length m) < two63 ->
  (k < length (vv_encode m))%nat -> vv_decode (firstn k (vv_encode m)) = DecErr.
Proof.
  intros Hwf Hlen Hk. unfold vv_decode, vv_encode in *.
  rewrite app_length, length_int64_bytes in Hk.
  destruct (Nat.lt_ge_cases k 8) as [Hs|Hge].
  - unfold read_int64. rewrite read_full_short; [reflexivity|]. rewrite firstn_length. lia.
  - rewrite firstn_app, length_int64_bytes. rewrite (firstn_all2 (int64_bytes _)) by (rewrite length_int64_bytes; lia).
    rewrite read_int64_app by (unfold in_int64, two63 in *; lia).
    apply read_entries_truncated; [assumption|lia|].
    rewrite firstn_length. lia.
Qed.

(* non-vacuity *)
Definition demo_vv : vvmap := [([0;0;0;0;0;0;0;0;0;0;0;1], 7); ([0;0;0;0;0;0;0;0;0;0;0;2], -3)].
Example demo_vv_roundtrip : vv_decode (vv_encode demo_vv) = DecOk demo_vv.
Proof. vm_compute. reflexivity. Qed.
Example demo_vv_hostile_count :
  vv_decode (int64_bytes 4611686018427387904 ++ [0;0;0;0;0;0;0;0;0;0;0;1] ++ int64_bytes 5) = DecErr.
Proof. vm_compute. reflexivity. Qed.
Example demo_vv_negative_count : vv_decode (int64_bytes (-1)) = DecOk [].
Proof. vm_compute. reflexivity. Qed.

(* ---------- ticket shapes ---------- *)
Lemma mem_In s l : mem s l = true <-> In s l.
Proof.
  unfold mem. rewrite existsb_exists. split.
  - intros (x & Hx & E). apply String.eqb_eq in E. now subst.
  - intros H. exists s. split; [assumption|apply String.eqb_refl].
Qed.

(* what the decoder demands of the operations of a change covers everything the executor dereferences *)
Theorem accepted_change_op_has_all_tickets k present :
  change_op_ok k present = true -> forall f, In f (executor_reads k) -> In f present.
Proof.
  unfold change_op_ok, op_ok. intros H f Hf. apply andb_true_iff in H as [H1 H2].
  rewrite forallb_forall in H1. apply mem_In.
  destruct k; cbn in Hf; repeat (destruct Hf as [<-|Hf]; [first [exact H2 | apply H1; cbn; tauto]|]); destruct Hf.
Qed.

(* and a missing ticket is a decode error *)
Theorem missing_ticket_rejected k present f :
  In f (executor_reads k) -> ~ In f present -> change_op_ok k present = false.
Proof.
  intros Hf Hn. destruct (change_op_ok k present) eqn:E; [|reflexivity].
  exfalso. apply Hn. eapply accepted_change_op_has_all_tickets; eauto.
Qed.
