(* Store.v — the project-scoped data-access layer (property C13).

   Every stored object (client, document, revision, channel session, change,
   schema) is a row with a globally unique id and the project it belongs to.
   Ids are modelled as (minting project, serial): global uniqueness is then by
   construction, while lookups still go by the full id and the *row's* project
   field is what the scoped lookups compare, as
   memory/database.go FindClientInfoByRefKey / FindDocInfoByRefKey do
   (txn.First(tbl, "id", id) followed by the ProjectID check).

   Handlers are programs over these primitives (a free monad whose continuations
   are arbitrary Gallina functions); [run] executes a program on behalf of the
   project that the request's credential resolved to. *)
From Coq Require Import List NArith Bool.
Import ListNotations.
Open Scope N_scope.

Definition pid := N.
Definition oid := (N * N)%type.            (* minting project, serial *)

Inductive tbl := TClient | TDoc | TRev | TSession | TChange | TSchema.

Definition tbl_eqb (a b : tbl) : bool :=
  match a, b with
  | TClient, TClient | TDoc, TDoc | TRev, TRev | TSession, TSession | TChange, TChange | TSchema, TSchema => true
  | _, _ => false
  end.

Definition oid_eqb (a b : oid) : bool := (fst a =? fst b) && (snd a =? snd b).

Record row := mkRow {
  r_tbl : tbl; r_id : oid; r_proj : pid; r_key : N;
  r_live : bool;           (* activated / not removed / session present *)
  r_refs : list oid;       (* client: attached documents; revision, change: the document *)
  r_data : list N          (* content *)
}.

Definition db := list row.

Definition is_row (t : tbl) (id : oid) (r : row) : bool := tbl_eqb (r_tbl r) t && oid_eqb (r_id r) id.

(* unscoped lookup by id: what FindRevisionInfoByID and the channel manager's
   session index are *)
Definition find_raw (t : tbl) (id : oid) (d : db) : option row := find (is_row t id) d.

(* lookup by id, then the project check *)
Definition find_scoped (P : pid) (t : tbl) (id : oid) (d : db) : option row :=
  match find_raw t id d with
  | Some r => if r_proj r =? P then Some r else None
  | None => None
  end.

(* (project, key) index *)
Definition find_key (P : pid) (t : tbl) (k : N) (d : db) : option row :=
  find (fun r => tbl_eqb (r_tbl r) t && (r_proj r =? P) && (r_key r =? k)) d.

Definition list_proj (P : pid) (t : tbl) (d : db) : list row :=
  filter (fun r => tbl_eqb (r_tbl r) t && (r_proj r =? P)) d.

Definition max_serial (P : pid) (d : db) : N :=
  fold_right (fun r m => if fst (r_id r) =? P then N.max (snd (r_id r)) m else m) 0 d.

Definition mint (P : pid) (d : db) : oid := (P, N.succ (max_serial P d)).

Definition insert (P : pid) (t : tbl) (k : N) (refs : list oid) (data : list N) (d : db) : oid * db :=
  let id := mint P d in (id, d ++ [mkRow t id P k true refs data]).

Definition set_payload (r : row) (live : bool) (refs : list oid) (data : list N) : row :=
  mkRow (r_tbl r) (r_id r) (r_proj r) (r_key r) live refs data.

(* update by id within the project; a row of another project is never touched *)
Definition update (P : pid) (t : tbl) (id : oid) (live : bool) (refs : list oid) (data : list N) (d : db) : db :=
  map (fun r => if is_row t id r && (r_proj r =? P) then set_payload r live refs data else r) d.

Inductive prim : Type -> Type :=
| PFind (t : tbl) (id : oid) : prim (option row)
| PFindKey (t : tbl) (k : N) : prim (option row)
| PList (t : tbl) : prim (list row)
| PInsert (t : tbl) (k : N) (refs : list oid) (data : list N) : prim oid
| PUpdate (t : tbl) (id : oid) (live : bool) (refs : list oid) (data : list N) : prim unit
| PFindRaw (t : tbl) (id : oid) : prim (option row).

Definition scoped_prim {B} (p : prim B) : bool :=
  match p with PFindRaw _ _ => false | _ => true end.

Inductive err := ENotFound | EFailedPre | EInvalid.

Inductive prog (A : Type) : Type :=
| Ret (a : A)
| Fail (e : err)
| Bind {B : Type} (p : prim B) (k : B -> prog A).
Arguments Ret {A} a.
Arguments Fail {A} e.
Arguments Bind {A B} p k.

Definition exec_prim {B} (P : pid) (p : prim B) (d : db) : B * db :=
  match p in prim B return B * db with
  | PFind t id => (find_scoped P t id d, d)
  | PFindKey t k => (find_key P t k d, d)
  | PList t => (list_proj P t d, d)
  | PInsert t k refs data => insert P t k refs data d
  | PUpdate t id live refs data => (tt, update P t id live refs data d)
  | PFindRaw t id => (find_raw t id d, d)
  end.

Fixpoint run {A} (P : pid) (m : prog A) (d : db) : (A + err) * db :=
  match m with
  | Ret a => (inl a, d)
  | Fail e => (inr e, d)
  | Bind p k => let '(b, d') := exec_prim P p d in run P (k b) d'
  end.

(* what belongs to project Q *)
Definition restrict (Q : pid) (d : db) : db := filter (fun r => r_proj r =? Q) d.

(* ids are minted by the project the row belongs to *)
Definition wf (d : db) : Prop := forall r, In r d -> fst (r_id r) = r_proj r.

(* programs that touch the store through project-scoped primitives only *)
Inductive Scoped {A} : prog A -> Prop :=
| ScRet a : Scoped (Ret a)
| ScFail e : Scoped (Fail e)
| ScBind B (p : prim B) k : scoped_prim p = true -> (forall b, Scoped (k b)) -> Scoped (Bind p k).

(* the pattern "global lookup by id, then compare the project" used for
   revisions (revisions.Restore, GetRevision and GetRevisionByAdmin) and channel sessions *)
Definition find_checked {A} (P : pid) (t : tbl) (id : oid) (k : option row -> prog A) : prog A :=
  Bind (PFindRaw t id) (fun o =>
    match o with
    | Some r => if r_proj r =? P then k (Some r) else k None
    | None => k None
    end).
