(* Handlers.v — the YorkieService handlers as programs over the scoped store,
   the credential gate of the three services, and [serve].  Each handler follows
   server/rpc/yorkie_server.go: which ids it reads from the request, in which
   order it looks them up, with which project. *)
From Coq Require Import List NArith Bool String.
From YV Require Import Authz.Store.
Import ListNotations.
Open Scope N_scope.
Local Notation "a == b" := (String.eqb a b) (at level 70).

Record req := mkReq {
  q_client : oid; q_doc : oid; q_rev : oid; q_session : oid;
  q_key : N;              (* client key / document key / channel key, per procedure *)
  q_data : list N
}.

Inductive resp := ROk (ids : list oid) (data : list N).

Definition need (t : tbl) (id : oid) (k : row -> prog resp) : prog resp :=
  Bind (PFind t id) (fun o => match o with Some r => k r | None => Fail ENotFound end).

(* clients.FindActiveClientInfo *)
Definition need_client (q : req) (k : row -> prog resp) : prog resp :=
  need TClient (q_client q) (fun c => if r_live c then k c else Fail EFailedPre).

Definition attached (c d : row) : bool := existsb (oid_eqb (r_id d)) (r_refs c).

Definition need_attached (c d : row) (k : prog resp) : prog resp :=
  if attached c d then k else Fail EFailedPre.

Definition remove_ref (id : oid) (l : list oid) : list oid := filter (fun x => negb (oid_eqb x id)) l.

Definition data_of (rs : list row) : list N := flat_map r_data rs.

Definition of_doc (d : row) (r : row) : bool := existsb (oid_eqb (r_id d)) (r_refs r).

Definition handler (P : pid) (name : string) (q : req) : option (prog resp) :=
  (if name == "ActivateClient" then Some (
     Bind (PFindKey TClient (q_key q)) (fun o =>
       match o with
       | Some c => Bind (PUpdate TClient (r_id c) true (r_refs c) (r_data c)) (fun _ => Ret (ROk [r_id c] []))
       | None => Bind (PInsert TClient (q_key q) [] []) (fun id => Ret (ROk [id] []))
       end))
   else if name == "DeactivateClient" then Some (
     need_client q (fun c => Bind (PUpdate TClient (r_id c) false [] (r_data c)) (fun _ => Ret (ROk [] []))))
   else if name == "AttachDocument" then Some (
     need_client q (fun c =>
       Bind (PFindKey TDoc (q_key q)) (fun o =>
         match o with
         | Some d =>
             if attached c d then Fail EFailedPre else
             Bind (PUpdate TClient (r_id c) true (r_id d :: r_refs c) (r_data c)) (fun _ =>
             Bind (PInsert TChange 0 [r_id d] (q_data q)) (fun _ =>
             Bind (PList TChange) (fun chs => Ret (ROk [r_id d] (data_of (filter (of_doc d) chs))))))
         | None =>
             Bind (PInsert TDoc (q_key q) [] []) (fun id =>
             Bind (PUpdate TClient (r_id c) true (id :: r_refs c) (r_data c)) (fun _ =>
             Bind (PInsert TChange 0 [id] (q_data q)) (fun _ => Ret (ROk [id] (q_data q)))))
         end)))
   else if name == "DetachDocument" then Some (
     need_client q (fun c => need TDoc (q_doc q) (fun d => need_attached c d (
       Bind (PInsert TChange 0 [r_id d] (q_data q)) (fun _ =>
       Bind (PUpdate TClient (r_id c) true (remove_ref (r_id d) (r_refs c)) (r_data c)) (fun _ => Ret (ROk [] [])))))))
   else if name == "RemoveDocument" then Some (
     need_client q (fun c => need TDoc (q_doc q) (fun d => need_attached c d (
       Bind (PUpdate TDoc (r_id d) false (r_refs d) (r_data d)) (fun _ =>
       Bind (PUpdate TClient (r_id c) true (remove_ref (r_id d) (r_refs c)) (r_data c)) (fun _ => Ret (ROk [] [])))))))
   else if name == "PushPullChanges" then Some (
     need_client q (fun c => need TDoc (q_doc q) (fun d => need_attached c d (
       Bind (PInsert TChange 0 [r_id d] (q_data q)) (fun _ =>
       Bind (PList TChange) (fun chs => Ret (ROk [] (data_of (filter (of_doc d) chs)))))))))
   else if (name == "WatchDocument") || (name == "Watch") then Some (
     need_client q (fun c => need TDoc (q_doc q) (fun d => need_attached c d (
       Bind (PList TClient) (fun cs => Ret (ROk (map r_id (filter (fun x => attached x d) cs)) []))))))
   else if name == "CreateRevision" then Some (
     (* the handler does not look the client up *)
     need TDoc (q_doc q) (fun d =>
       Bind (PList TChange) (fun chs =>
       Bind (PInsert TRev (q_key q) [r_id d] (data_of (filter (of_doc d) chs))) (fun id => Ret (ROk [id] [])))))
   else if name == "ListRevisions" then Some (
     need TDoc (q_doc q) (fun d => need_client q (fun c =>
       Bind (PList TRev) (fun rs => Ret (ROk (map r_id (filter (of_doc d) rs)) [])))))
   else if name == "GetRevision" then Some (
     need TDoc (q_doc q) (fun d => need_client q (fun c =>
       find_checked P TRev (q_rev q) (fun o =>
         match o with
         | Some r => if of_doc d r then Ret (ROk [r_id r] (r_data r)) else Fail ENotFound
         | None => Fail ENotFound
         end))))
   else if name == "RestoreRevision" then Some (
     need_client q (fun c => need TDoc (q_doc q) (fun d =>
       find_checked P TRev (q_rev q) (fun o =>
         match o with
         | Some r => Bind (PInsert TChange 0 (r_refs r) (r_data r)) (fun _ => Ret (ROk [] []))
         | None => Fail ENotFound
         end))))
   else if (name == "AttachChannel") then Some (
     need_client q (fun c => Bind (PInsert TSession (q_key q) [r_id c] []) (fun id =>
       Bind (PList TSession) (fun ss => Ret (ROk [id] [N.of_nat (List.length (filter (fun s => (r_key s =? q_key q) && r_live s) ss))])))))
   else if name == "DetachChannel" then Some (
     need_client q (fun c => find_checked P TSession (q_session q) (fun o =>
       match o with
       | Some s => if r_live s then Bind (PUpdate TSession (r_id s) false (r_refs s) (r_data s)) (fun _ => Ret (ROk [] []))
                   else Fail ENotFound
       | None => Fail ENotFound
       end)))
   else if name == "RefreshChannel" then Some (
     (* heartbeat path: a session id is present *)
     find_checked P TSession (q_session q) (fun o =>
       match o with
       | Some s => if r_live s then
           Bind (PList TSession) (fun ss => Ret (ROk [] [N.of_nat (List.length (filter (fun s => (r_key s =? q_key q) && r_live s) ss))]))
           else Fail ENotFound
       | None => Fail ENotFound
       end))
   else if name == "PeekChannel" then Some (
     Bind (PList TSession) (fun ss => Ret (ROk [] [N.of_nat (List.length (filter (fun s => (r_key s =? q_key q) && r_live s) ss))])))
   else if (name == "Broadcast") || (name == "WatchChannel") then Some (
     need_client q (fun c => Ret (ROk [] [])))
   else None).

(* ---- credentials ---- *)
Inductive svc := Yorkie | Admin | Cluster.

Inductive credv :=
| CNone | CGarbage
| CApiKey (p : pid)          (* a project's public key, x-api-key header *)
| CToken (u : N)             (* a user's admin token *)
| CSecretKey (p : pid)       (* a project's secret key, "API-Key" authorization *)
| CClusterSecret.

Record config := { use_default_project : bool; default_project : pid; cluster_secret_set : bool }.

Inductive ctx := CtxProject (p : pid) | CtxUser (u : N) | CtxCluster | CtxOpen.

Definition admin_open (name : string) : bool :=
  (name == "LogIn") || (name == "SignUp") || (name == "ChangePassword") || (name == "DeleteAccount").

(* interceptors/yorkie.go buildContext, admin.go authenticate, cluster.go authenticate *)
Definition gate (cfg : config) (s : svc) (name : string) (c : credv) : option ctx :=
  match s with
  | Yorkie =>
      match c with
      | CApiKey p => Some (CtxProject p)
      | CNone => if use_default_project cfg then Some (CtxProject (default_project cfg)) else None
      | CToken _ | CSecretKey _ | CClusterSecret =>
          (* no x-api-key header *)
          if use_default_project cfg then Some (CtxProject (default_project cfg)) else None
      | CGarbage => None
      end
  | Admin =>
      if admin_open name then Some CtxOpen else
      match c with
      | CToken u => Some (CtxUser u)
      | CSecretKey p => Some (CtxProject p)
      | _ => None
      end
  | Cluster =>
      if cluster_secret_set cfg then match c with CClusterSecret => Some CtxCluster | _ => None end
      else Some CtxCluster
  end.

Inductive outcome := OUnauth | OErr (e : err) | OResp (r : resp) | OUnmodelled.

(* the Yorkie service end to end: gate, then the handler under the resolved project *)
Definition serve (cfg : config) (name : string) (c : credv) (q : req) (d : db) : outcome * db :=
  match gate cfg Yorkie name c with
  | Some (CtxProject P) =>
      match handler P name q with
      | Some m => match run P m d with
                  | (inl r, d') => (OResp r, d')
                  | (inr e, d') => (OErr e, d')
                  end
      | None => (OUnmodelled, d)
      end
  | _ => (OUnauth, d)
  end.

(* every procedure of the services must be classified: Yorkie procedures have a
   handler program, Admin and Cluster procedures are covered by the gate only *)
Definition yorkie_modelled (name : string) : bool :=
  match handler 0 name (mkReq (0,0) (0,0) (0,0) (0,0) 0 []) with Some _ => true | None => false end.
