(* History.v — undo/redo as pkg/document/history.go and Document.Update /
   executeUndoRedo drive it, over an abstract operation executor:
   [exec s o] applies o to the content s and returns the new content with the
   reverse operation (operations/<op>.go Execute returning ExecutionResult.Reverse).
   Every Update that pushed something becomes one stack entry (the reverses of
   its operations, executed in reverse order on undo); the stacks keep the newest
   [cap] = 50 entries; a new Update clears the redo stack.

   [Content.v] instantiates the executor with the content edits of the public API
   on one client: counter increase (32/64-bit wrap), object set/delete, array
   insert/delete by index, text replace by index range. *)
From Coq Require Import List Arith Lia.
Import ListNotations.

Section History.
  Variables (St Op : Type).
  Variable exec : St -> Op -> St * Op.

  Definition cap : nat := 50.

  Record hist := mkHist { cur : St; undo : list (list Op); redo : list (list Op) }.   (* stacks: newest first *)

  (* execute the operations of an entry in order; the new entry holds their reverses, last first *)
  Fixpoint run_entry (s : St) (ops : list Op) (acc : list Op) : St * list Op :=
    match ops with
    | [] => (s, acc)
    | o :: r => let '(s', rev) := exec s o in run_entry s' r (rev :: acc)
    end.

  Definition push (e : list Op) (st : list (list Op)) : list (list Op) := firstn cap (e :: st).

  (* Document.Update with the given operations; [pushed] = the change carried operations *)
  Definition do_update (h : hist) (ops : list Op) : hist :=
    let '(s', rev) := run_entry (cur h) ops [] in
    match ops with
    | [] => h
    | _ => mkHist s' (push rev (undo h)) []
    end.

  Definition do_undo (h : hist) : option hist :=
    match undo h with
    | [] => None
    | e :: rest => let '(s', rev) := run_entry (cur h) e [] in Some (mkHist s' rest (push rev (redo h)))
    end.

  Definition do_redo (h : hist) : option hist :=
    match redo h with
    | [] => None
    | e :: rest => let '(s', rev) := run_entry (cur h) e [] in Some (mkHist s' (push rev (undo h)) rest)
    end.

  Fixpoint iter_opt (f : hist -> option hist) (k : nat) (h : hist) : option hist :=
    match k with
    | O => Some h
    | S n => match f h with Some h' => iter_opt f n h' | None => None end
    end.

  Definition run_program (s0 : St) (prog : list (list Op)) : hist :=
    fold_left do_update prog (mkHist s0 [] []).

  (* the contents recorded after each update of a program, newest first, starting content last *)
  Fixpoint trail (s0 : St) (prog : list (list Op)) (acc : list St) : list St :=
    match prog with
    | [] => s0 :: acc
    | ops :: r => trail (fst (run_entry s0 ops [])) r (s0 :: acc)
    end.
End History.
Arguments mkHist {St Op}. Arguments cur {St Op}. Arguments undo {St Op}. Arguments redo {St Op}.
