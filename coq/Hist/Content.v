(* Content.v — the visible content of a document with one counter of each width,
   one object, one array and one text, and the content edits of C14's alphabet
   with their reverses, as the operations build them (Increase: the negated
   operand; Set/Remove: what the key held before; Add/Remove on arrays: the
   element that was there; Edit: the replaced run). *)
From Coq Require Import List ZArith Bool Lia.
Import ListNotations.
Open Scope Z_scope.

Record content := mkContent {
  c32 : Z; c64 : Z;                   (* counters, values kept in range *)
  obj : list (Z * Z);                 (* object "o": key -> integer, insertion order irrelevant to Marshal (sorted) *)
  arr : list Z;                       (* array "a" *)
  txt : list Z                        (* text "t" as UTF-16 units *)
}.

Definition wrap32 (x : Z) : Z := let m := x mod 4294967296 in if m <? 2147483648 then m else m - 4294967296.
Definition wrap64 (x : Z) : Z := let m := x mod 18446744073709551616 in if m <? 9223372036854775808 then m else m - 18446744073709551616.

Inductive cop :=
| CInc32 (v : Z) | CInc64 (v : Z)
| CAssign (k : Z) (v : option Z)            (* set k := v, or delete k *)
| CArrIns (i : nat) (v : Z)                 (* insert so that v ends up at index i *)
| CArrDel (i : nat)
| CText (from : nat) (len : nat) (s : list Z)   (* replace [from, from+len) by s *)
| CNop.

Fixpoint oget (m : list (Z * Z)) (k : Z) : option Z :=
  match m with [] => None | (a, v) :: r => if a =? k then Some v else oget r k end.
Fixpoint odel (m : list (Z * Z)) (k : Z) : list (Z * Z) :=
  match m with [] => [] | (a, v) :: r => if a =? k then r else (a, v) :: odel r k end.
(* the object is kept sorted by key (what Marshal prints): one representation per map *)
Fixpoint oins (m : list (Z * Z)) (k v : Z) : list (Z * Z) :=
  match m with
  | [] => [(k, v)]
  | (a, w) :: r => if k <? a then (k, v) :: m else if a =? k then (k, v) :: r else (a, w) :: oins r k v
  end.
Definition oset (m : list (Z * Z)) (k v : Z) : list (Z * Z) := oins m k v.

Definition exec (c : content) (o : cop) : content * cop :=
  match o with
  | CInc32 v => (mkContent (wrap32 (c32 c + v)) (c64 c) (obj c) (arr c) (txt c), CInc32 (- v))
  | CInc64 v => (mkContent (c32 c) (wrap64 (c64 c + v)) (obj c) (arr c) (txt c), CInc64 (- v))
  | CAssign k v =>
      let old := oget (obj c) k in
      (mkContent (c32 c) (c64 c) (match v with Some x => oset (obj c) k x | None => odel (obj c) k end) (arr c) (txt c),
       CAssign k old)
  | CArrIns i v =>
      if Nat.leb i (length (arr c)) then
        (mkContent (c32 c) (c64 c) (obj c) (firstn i (arr c) ++ v :: skipn i (arr c)) (txt c), CArrDel i)
      else (c, o)
  | CArrDel i =>
      match nth_error (arr c) i with
      | Some v => (mkContent (c32 c) (c64 c) (obj c) (firstn i (arr c) ++ skipn (S i) (arr c)) (txt c), CArrIns i v)
      | None => (c, o)
      end
  | CText from len s =>
      if Nat.leb (from + len) (length (txt c)) then
        (mkContent (c32 c) (c64 c) (obj c) (arr c) (firstn from (txt c) ++ s ++ skipn (from + len) (txt c)),
         CText from (length s) (firstn len (skipn from (txt c))))
      else (c, o)
  | CNop => (c, CNop)
  end.

(* An index beyond the current size (the public API panics on it; the generated programs
   never contain one) leaves the content alone and is its own reverse. *)

Fixpoint sorted_keys (m : list (Z * Z)) : Prop :=
  match m with
  | [] => True
  | (a, _) :: r => match r with [] => True | (b, _) :: _ => a < b end /\ sorted_keys r
  end.

Definition in32 (x : Z) : Prop := -2147483648 <= x < 2147483648.
Definition in64 (x : Z) : Prop := -9223372036854775808 <= x < 9223372036854775808.

Definition valid (c : content) : Prop := in32 (c32 c) /\ in64 (c64 c) /\ sorted_keys (obj c).
