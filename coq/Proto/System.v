(* Proto/System.v — honest clients around Proto/Server.v: what
   document.InternalDocument keeps (checkpoint, unacknowledged local changes)
   and how CreateChangePack / ApplyChangePack use a response.  One document,
   one attachment session per client.  Definitions only. *)
From YV Require Export Proto.Server.

Record cli := mkCli {
  k_cp_s : Z; k_cp_c : Z;
  k_pending : list chdr;          (* localChanges, oldest first *)
  k_recv : list stored;           (* every remote change applied so far, in order *)
  k_snap : bool                   (* ghost: a snapshot has replaced part of the change stream *)
}.

Record sys := mkSys { y_srv : srv; y_clis : list (actor * cli) }.

Inductive sev :=
| SLocal (a : actor) (lam : Z) (v : vv) (nops : Z) (pres : N)   (* Document.Update *)
| SSync (a : actor) (m : smode) (reqvv : vv) (lost : bool).     (* PushPullChanges; [lost] = response never arrives *)

Definition next_cseq (k : cli) : Z := k_cp_c k + Z.of_nat (length (k_pending k)) + 1.

(* CreateChangePack *)
Definition mk_request (a : actor) (k : cli) (m : smode) (v : vv) : req :=
  mkReq a (k_cp_s k) (k_cp_c k + Z.of_nat (length (k_pending k))) (k_pending k) v false m DAttached false.

Fixpoint drop_acked (cp_c : Z) (l : list chdr) : list chdr :=
  match l with
  | [] => []
  | c :: r => if h_cseq c <=? cp_c then drop_acked cp_c r else c :: r
  end.

(* ApplyChangePack (change branch) *)
Definition apply_resp (k : cli) (r : resp) : cli :=
  mkCli (Z.max (k_cp_s k) (p_cp_s r)) (Z.max (k_cp_c k) (p_cp_c r))
        (drop_acked (p_cp_c r) (k_pending k)) (k_recv k ++ p_changes r)
        (k_snap k || p_snapshot r).

Definition sstep (y : sys) (e : sev) : sys :=
  match e with
  | SLocal a lam v nops pres =>
      match aget (y_clis y) a with
      | Some k => mkSys (y_srv y)
                    (aset (y_clis y) a (mkCli (k_cp_s k) (k_cp_c k)
                       (k_pending k ++ [mkCh a (next_cseq k) lam v nops pres]) (k_recv k) (k_snap k)))
      | None => y
      end
  | SSync a m v lost =>
      match aget (y_clis y) a with
      | Some k =>
          let '(s2, r, er) := push_pull (y_srv y) (mk_request a k m v) in
          match er with
          | ENone => mkSys s2 (if lost then y_clis y else aset (y_clis y) a (apply_resp k r))
          | _ => mkSys s2 (y_clis y)
          end
      | None => y
      end
  end.

(* n clients activated and attached to a fresh document, nobody has synced yet *)
Fixpoint attach_all (s : srv) (l : list actor) : srv :=
  match l with
  | [] => s
  | a :: r => match mark_attached (activate s a) a with
              | Some s' => attach_all s' r
              | None => attach_all s r
              end
  end.

(* the state [attach_all] reaches for distinct actors, written out *)
Definition init_srv (threshold : Z) (actors : list actor) : srv :=
  mkSrv [] 0 0 false false (map (fun a => (a, mkCI true (mkCD DAttached 0 0 0))) actors) [] threshold.

Definition init_sys (threshold : Z) (actors : list actor) : sys :=
  mkSys (init_srv threshold actors)
        (map (fun a => (a, mkCli 0 0 [] [] false)) actors).

Definition srun (y : sys) (es : list sev) : sys := fold_left sstep es y.
