(* Proto/Lifecycle.v — the documented client/document state machine
   (docs/design/document-client-lifecycle.md) for any number of client slots
   and document keys.  A client slot holds its current identity (every
   Activate issues a new one); a document key has generations (a removed
   document is replaced by a new one on the next attach).  Definitions only. *)
From YV Require Export Proto.Server.

Record ldoc := mkLD { ld_key : N; ld_gen : N; ld_status : dstatus }.

Record lclient := mkLC { lc_active : bool; lc_docs : list ldoc }.

Record lstate := mkLS {
  l_clients : list (N * lclient);       (* slot -> current identity *)
  l_gens : list (N * N);                (* key -> current generation *)
  l_removed : list (N * N);             (* removed (key, generation) *)
  l_writes : list (N * N * Z)           (* (key, generation) -> number of stored changes *)
}.

Definition empty_lstate : lstate := mkLS [] [] [] [].

Inductive lcall :=
| LActivate (c : N) | LDeactivate (c : N)
| LAttach (c d : N) (nchanges : Z) | LAttachSame (c d : N) (nchanges : Z) | LPushPull (c d : N) (nchanges : Z) | LDetach (c d : N) (nchanges : Z) | LRemove (c d : N) (nchanges : Z)
| LAttachFail (c d : N) (nchanges : Z).   (* an attach naming an unknown schema: it fails, after the server recorded it as attaching, when nobody else has the document attached; otherwise the schema key is ignored *)

Definition cur_gen (s : lstate) (d : N) : N :=
  match aget (l_gens s) d with Some g => g | None => 0%N end.

Definition is_removed (s : lstate) (d g : N) : bool :=
  existsb (fun kg => N.eqb (fst kg) d && N.eqb (snd kg) g) (l_removed s).

Fixpoint find_doc (l : list ldoc) (d : N) : option ldoc :=
  match l with
  | [] => None
  | x :: r => if N.eqb (ld_key x) d then Some x else find_doc r d
  end.

Fixpoint set_doc (l : list ldoc) (x : ldoc) : list ldoc :=
  match l with
  | [] => [x]
  | y :: r => if N.eqb (ld_key y) (ld_key x) then x :: r else y :: set_doc r x
  end.

Definition attached_like (st : dstatus) : bool :=
  dstatus_eqb st DAttached || dstatus_eqb st DAttaching.

Fixpoint wget (l : list (N * N * Z)) (d g : N) : Z :=
  match l with
  | [] => 0
  | (d', g', n) :: r => if N.eqb d' d && N.eqb g' g then n else wget r d g
  end.

Fixpoint wadd (l : list (N * N * Z)) (d g : N) (k : Z) : list (N * N * Z) :=
  match l with
  | [] => [(d, g, k)]
  | (d', g', n) :: r => if N.eqb d' d && N.eqb g' g then (d', g', n + k) :: r else (d', g', n) :: wadd r d g k
  end.

Definition set_client (s : lstate) (c : N) (x : lclient) : lstate :=
  mkLS (aset (l_clients s) c x) (l_gens s) (l_removed s) (l_writes s).

(* what a request carrying n changes stores for the document (d, g): nothing once it is removed
   (pushPack discards what is pushed to a removed document; the response carries the removed flag) *)
Definition stored (s : lstate) (d g : N) (n : Z) : Z := if is_removed s d g then 0 else n.

(* does another client hold (d, g) attached? (documents.FindAttachedClientCount > 0) *)
Definition attached_elsewhere (s : lstate) (c d g : N) : bool :=
  existsb (fun cx => negb (N.eqb (fst cx) c) &&
                     match find_doc (lc_docs (snd cx)) d with
                     | Some dd => N.eqb (ld_gen dd) g && dstatus_eqb (ld_status dd) DAttached
                     | None => false
                     end) (l_clients s).

(* one call: the verdict (true = accepted) and the new state *)
Definition lstep (s : lstate) (call : lcall) : bool * lstate :=
  match call with
  | LActivate c => (true, set_client s c (mkLC true []))
  | LDeactivate c =>
      match aget (l_clients s) c with
      | Some x =>
          if lc_active x then
            (* every attached document is detached through the server; the presence-clear
               change that rides in that detach is stripped on presenceless documents, which
               is what this specification is run against: nothing is stored *)
            let ws := l_writes s in
            (true, mkLS (aset (l_clients s) c
                           (mkLC false (map (fun dd => if attached_like (ld_status dd)
                                                       then mkLD (ld_key dd) (ld_gen dd) DDetached else dd) (lc_docs x))))
                        (l_gens s) (l_removed s) ws)
          else (false, s)
      | None => (false, s)
      end
  | LAttach c d n =>
      match aget (l_clients s) c with
      | Some x =>
          if lc_active x then
            let g := cur_gen s d in
            let g' := if is_removed s d g then (g + 1)%N else g in
            let known := match find_doc (lc_docs x) d with
                         | Some dd => if N.eqb (ld_gen dd) g' then ld_status dd else DNone
                         | None => DNone
                         end in
            if dstatus_eqb known DAttached then (false, s)
            else (true, mkLS (aset (l_clients s) c (mkLC true (set_doc (lc_docs x) (mkLD d g' DAttached))))
                             (aset (l_gens s) d g') (l_removed s) (wadd (l_writes s) d g' n))
          else (false, s)
      | None => (false, s)
      end
  | LAttachSame c d n =>
      (* attach with the Document instance this identity used before: only a fresh
         instance may be attached (re-using a detached or removed one is refused, an
         attached one is attached already) *)
      match aget (l_clients s) c with
      | Some x =>
          if lc_active x then
            let fresh :=
                let g := cur_gen s d in
                let g' := if is_removed s d g then (g + 1)%N else g in
                (true, mkLS (aset (l_clients s) c (mkLC true (set_doc (lc_docs x) (mkLD d g' DAttached))))
                            (aset (l_gens s) d g') (l_removed s) (wadd (l_writes s) d g' n)) in
            match find_doc (lc_docs x) d with
            | Some dd =>
                (* the residue of an attach that failed half-way: the local Document was never
                   attached, attaching it again is an ordinary attach *)
                if dstatus_eqb (ld_status dd) DAttaching then fresh else (false, s)
            | None => fresh
            end
          else (false, s)
      | None => (false, s)
      end
  | LPushPull c d n =>
      match aget (l_clients s) c with
      | Some x =>
          match find_doc (lc_docs x) d with
          | Some dd =>
              if lc_active x && dstatus_eqb (ld_status dd) DAttached
              then (true, mkLS (l_clients s) (l_gens s) (l_removed s) (wadd (l_writes s) d (ld_gen dd) (stored s d (ld_gen dd) n)))
              else (false, s)
          | None => (false, s)
          end
      | None => (false, s)
      end
  | LDetach c d n =>
      match aget (l_clients s) c with
      | Some x =>
          match find_doc (lc_docs x) d with
          | Some dd =>
              if lc_active x && attached_like (ld_status dd)
              then (true, mkLS (aset (l_clients s) c (mkLC true (set_doc (lc_docs x) (mkLD d (ld_gen dd) DDetached))))
                               (l_gens s) (l_removed s) (wadd (l_writes s) d (ld_gen dd) (stored s d (ld_gen dd) n)))
              else (false, s)
          | None => (false, s)
          end
      | None => (false, s)
      end
  | LAttachFail c d n =>
      match aget (l_clients s) c with
      | Some x =>
          if lc_active x then
            let g := cur_gen s d in
            let g' := if is_removed s d g then (g + 1)%N else g in
            let known := match find_doc (lc_docs x) d with
                         | Some dd => if N.eqb (ld_gen dd) g' then ld_status dd else DNone
                         | None => DNone
                         end in
            if dstatus_eqb known DAttached then (false, s)
            else if attached_elsewhere s c d g'
            then (* the schema key is looked at only by the first attacher: an ordinary attach *)
                 (true, mkLS (aset (l_clients s) c (mkLC true (set_doc (lc_docs x) (mkLD d g' DAttached))))
                             (aset (l_gens s) d g') (l_removed s) (wadd (l_writes s) d g' n))
            else (* partial failure residue: the document exists, the client holds it as attaching,
                    nothing is stored; [true] = the call took this effect (the caller sees an error) *)
                 (true, mkLS (aset (l_clients s) c (mkLC true (set_doc (lc_docs x) (mkLD d g' DAttaching))))
                             (aset (l_gens s) d g') (l_removed s) (l_writes s))
          else (false, s)
      | None => (false, s)
      end
  | LRemove c d n =>
      match aget (l_clients s) c with
      | Some x =>
          match find_doc (lc_docs x) d with
          | Some dd =>
              if lc_active x && attached_like (ld_status dd)
              then (true, mkLS (aset (l_clients s) c (mkLC true (set_doc (lc_docs x) (mkLD d (ld_gen dd) DRemoved))))
                               (l_gens s) ((d, ld_gen dd) :: l_removed s) (wadd (l_writes s) d (ld_gen dd) (stored s d (ld_gen dd) n)))
              else (false, s)
          | None => (false, s)
          end
      | None => (false, s)
      end
  end.

Definition lrun (s : lstate) (calls : list lcall) : lstate := fold_left (fun s c => snd (lstep s c)) calls s.
