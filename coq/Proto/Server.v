(* Proto/Server.v — model of server/packs/pushpull.go (PushPull, pushPack,
   pullPack, preparePack, pullChangeInfos, validateClientSeqContinuity,
   stripPresenceChanges) over the in-memory database
   (memory/database.go CreateChangeInfos, UpdateClientInfoAfterPushPull,
   UpdateMinVersionVector) and database/client_info.go, for ONE document and any
   number of clients.  Change payloads are opaque: a change is its header.
   Definitions only. *)
From YV Require Export Base.VV.

Inductive dstatus := DNone | DAttaching | DAttached | DDetached | DRemoved.

Definition dstatus_eqb (a b : dstatus) : bool :=
  match a, b with
  | DNone, DNone | DAttaching, DAttaching | DAttached, DAttached
  | DDetached, DDetached | DRemoved, DRemoved => true
  | _, _ => false
  end.

(* ClientDocInfo *)
Record cdoc := mkCD { cd_status : dstatus; cd_sseq : Z; cd_cseq : Z; cd_epoch : Z }.

(* ClientInfo restricted to this document *)
Record cinfo := mkCI { ci_active : bool; ci_doc : cdoc }.

(* a change as the server sees it: presence 0 = none, 1 = put, 2 = clear *)
Record chdr := mkCh { h_actor : actor; h_cseq : Z; h_lam : Z; h_vv : vv; h_nops : Z; h_pres : N }.

Record stored := mkSt { st_sseq : Z; st_ch : chdr }.

Record srv := mkSrv {
  s_log : list stored;                 (* oldest first *)
  s_head : Z;                          (* DocInfo.ServerSeq *)
  s_epoch : Z;
  s_removed : bool;
  s_nopres : bool;                     (* DocInfo.DisablePresence *)
  s_clients : list (actor * cinfo);
  s_vvrows : list (actor * vv);        (* versionvectors table *)
  s_threshold : Z                      (* project.SnapshotThreshold *)
}.

Fixpoint aget {A} (l : list (actor * A)) (a : actor) : option A :=
  match l with
  | [] => None
  | (k, x) :: r => if N.eqb k a then Some x else aget r a
  end.

Fixpoint aset {A} (l : list (actor * A)) (a : actor) (x : A) : list (actor * A) :=
  match l with
  | [] => [(a, x)]
  | (k, y) :: r => if N.eqb k a then (a, x) :: r else (k, y) :: aset r a x
  end.

Fixpoint adel {A} (l : list (actor * A)) (a : actor) : list (actor * A) :=
  match l with
  | [] => []
  | (k, y) :: r => if N.eqb k a then adel r a else (k, y) :: adel r a
  end.

Inductive smode := MPushPull | MPushOnly.
Inductive perr := ENone | EInvalidClientSeq | EInvalidServerSeq | EEpochMismatch | ENotAttached | ENotActive.

Definition perr_eqb (a b : perr) : bool :=
  match a, b with
  | ENone, ENone | EInvalidClientSeq, EInvalidClientSeq | EInvalidServerSeq, EInvalidServerSeq
  | EEpochMismatch, EEpochMismatch | ENotAttached, ENotAttached | ENotActive, ENotActive => true
  | _, _ => false
  end.

Record req := mkReq {
  q_client : actor;
  q_cp_s : Z; q_cp_c : Z;              (* reqPack.Checkpoint *)
  q_changes : list chdr;
  q_vv : vv;                           (* reqPack.VersionVector *)
  q_removed : bool;                    (* reqPack.IsRemoved *)
  q_mode : smode;
  q_status : dstatus;                  (* opts.Status: DAttached | DDetached | DRemoved *)
  q_disable_gc : bool
}.

Record resp := mkResp {
  p_cp_s : Z; p_cp_c : Z;
  p_changes : list stored;
  p_snapshot : bool;
  p_vv : option vv;                    (* None = nil; for snapshots the document's vector is not modelled *)
  p_removed : bool
}.

Definition client_cp (s : srv) (a : actor) : Z * Z :=
  match aget (s_clients s) a with
  | Some ci => (cd_sseq (ci_doc ci), cd_cseq (ci_doc ci))
  | None => (0, 0)
  end.

(* validateClientSeqContinuity *)
Fixpoint continuity_ok (cp_c : Z) (expected : Z) (cs : list chdr) : bool :=
  match cs with
  | [] => true
  | c :: r =>
      if h_cseq c <=? cp_c then continuity_ok cp_c expected r
      else if h_cseq c =? expected then continuity_ok cp_c (expected + 1) r
      else false
  end.

(* stripPresenceChanges *)
Fixpoint strip_presence (cs : list chdr) : list chdr :=
  match cs with
  | [] => []
  | c :: r =>
      if negb (N.eqb (h_pres c) 0) then
        if h_nops c =? 0 then strip_presence r
        else mkCh (h_actor c) (h_cseq c) (h_lam c) (h_vv c) (h_nops c) 0%N :: strip_presence r
      else c :: strip_presence r
  end.

(* CreateChangeInfos: assign server sequences, advance the checkpoint *)
Fixpoint store_changes (head : Z) (cp_s cp_c : Z) (cs : list chdr) : list stored * Z * Z * Z :=
  match cs with
  | [] => ([], head, cp_s, cp_c)
  | c :: r =>
      let sq := head + 1 in
      let '(rest, h', s', c') := store_changes sq sq (Z.max cp_c (h_cseq c)) r in
      (mkSt sq c :: rest, h', s', c')
  end.

Definition in_seq_range (lo hi : Z) (st : stored) : bool :=
  (lo <=? st_sseq st) && (st_sseq st <=? hi).

(* changes of the requester itself that pass the own-change filter come from an
   earlier attachment: their presence part is not replayed *)
Definition strip_own_presence (a : actor) (l : list stored) : list stored :=
  flat_map (fun st =>
      let c := st_ch st in
      if N.eqb (h_actor c) a && negb (N.eqb (h_pres c) 0) then
        if h_nops c =? 0 then []
        else [mkSt (st_sseq st) (mkCh (h_actor c) (h_cseq c) (h_lam c) (h_vv c) (h_nops c) 0%N)]
      else [st]) l.

(* pullChangeInfos: range (from, to], drop the requester's own already-known changes,
   strip presence on presenceless documents *)
Definition pull_changes (s : srv) (a : actor) (from to : Z) (cp_after_c : Z) : list stored :=
  let rng := filter (in_seq_range (from + 1) to) (s_log s) in
  let notown := strip_own_presence a
      (filter (fun st => negb (N.eqb (h_actor (st_ch st)) a && (h_cseq (st_ch st) <=? cp_after_c))) rng) in
  if s_nopres s then
    flat_map (fun st =>
      let c := st_ch st in
      if negb (N.eqb (h_pres c) 0) then
        if h_nops c =? 0 then []
        else [mkSt (st_sseq st) (mkCh (h_actor c) (h_cseq c) (h_lam c) (h_vv c) (h_nops c) 0%N)]
      else [st]) notown
  else notown.

Definition is_attached (ci : cinfo) : bool := dstatus_eqb (cd_status (ci_doc ci)) DAttached.

Definition set_cdoc (s : srv) (a : actor) (ci : cinfo) (d : cdoc) : list (actor * cinfo) :=
  aset (s_clients s) a (mkCI (ci_active ci) d).

(* PushPull.  Returns the new server state and either a response or an error.
   On an error the state returned is the state at the moment of the error
   (changes already stored stay stored, as in the code). *)
Definition push_pull (s : srv) (q : req) : srv * resp * perr :=
  let a := q_client q in
  let noresp := mkResp 0 0 [] false None false in
  match aget (s_clients s) a with
  | None => (s, noresp, ENotActive)
  | Some ci =>
    let cpb_s := cd_sseq (ci_doc ci) in
    let cpb_c := cd_cseq (ci_doc ci) in
    (* 00 continuity against the ORIGINAL request *)
    if negb (continuity_ok cpb_c (cpb_c + 1) (q_changes q)) then (s, noresp, EInvalidClientSeq) else
    (* 01 strip presence on the way in *)
    let changes := if s_nopres s then strip_presence (q_changes q) else q_changes q in
    (* 02 pushPack *)
    let pushables := filter (fun c => negb (h_cseq c <=? cpb_c)) changes in
    let epoch_mismatch := negb (cd_epoch (ci_doc ci) =? s_epoch s) in
    let guarded := negb (Nat.eqb (length pushables) 0) || q_removed q in
    let pushables := if guarded && epoch_mismatch then [] else pushables in
    if guarded && negb epoch_mismatch && (s_head s <? q_cp_s q) then (s, noresp, EInvalidServerSeq) else
    let '(newrows, head', cpa_s, cpa_c) := store_changes (s_head s) cpb_s cpb_c pushables in
    let s1 := mkSrv (s_log s ++ newrows) head' (s_epoch s) (s_removed s || q_removed q) (s_nopres s)
                    (s_clients s) (s_vvrows s) (s_threshold s) in
    let initial := head' - Z.of_nat (length pushables) in
    (* 03 preparePack *)
    let prepared : (Z * Z * list stored * bool) + perr :=
      match q_mode q with
      | MPushOnly => inl (q_cp_s q, cpa_c, [], false)
      | MPushPull =>
          if epoch_mismatch then inr EEpochMismatch
          else if initial <? q_cp_s q then inr EInvalidServerSeq
          else if initial - q_cp_s q <? s_threshold s1 then
                 inl ((if cpa_s =? head' then cpa_s else head'), cpa_c,
                      pull_changes s1 a (q_cp_s q) initial cpa_c, false)
          else inl ((if cpa_s =? head' then cpa_s else head'), cpa_c, [], true)
      end in
    let is_detach := dstatus_eqb (q_status q) DDetached || dstatus_eqb (q_status q) DRemoved in
    let prepared :=
      match prepared with
      | inr EEpochMismatch => if is_detach then inl (q_cp_s q, cpa_c, [], false) else inr EEpochMismatch
      | x => x
      end in
    match prepared with
    | inr e => (s1, noresp, e)
    | inl (rcp_s, rcp_c, pulled, snap) =>
      (* UpdateDocStatus *)
      let st := cd_status (ci_doc ci) in
      let attached_or_attaching := dstatus_eqb st DAttached || dstatus_eqb st DAttaching in
      let upd : option cdoc :=
        match q_status q with
        | DRemoved => if ci_active ci && attached_or_attaching then Some (mkCD DRemoved 0 0 (cd_epoch (ci_doc ci))) else None
        | DDetached => if ci_active ci && attached_or_attaching then Some (mkCD DDetached 0 0 (cd_epoch (ci_doc ci))) else None
        | _ => Some (mkCD st rcp_s rcp_c (cd_epoch (ci_doc ci)))
        end in
      match upd with
      | None => (s1, noresp, ENotAttached)
      | Some d =>
        let now_attached := dstatus_eqb (cd_status d) DAttached in
        (* version vectors *)
        let '(rows, rvv) :=
          if q_disable_gc q then (s_vvrows s1, None)
          else
            let rows := if now_attached then aset (s_vvrows s1) a (q_vv q) else adel (s_vvrows s1) a in
            let m := min_vv (q_vv q :: map snd rows) in
            (rows, if snap then None
                   else match q_mode q with MPushOnly => None | MPushPull => Some m end) in
        (* UpdateClientInfoAfterPushPull: max with what is stored *)
        let d' := if now_attached
                  then mkCD (cd_status d) (Z.max (cd_sseq d) cpb_s) (Z.max (cd_cseq d) cpb_c) (cd_epoch d)
                  else mkCD (cd_status d) 0 0 0 in
        let s2 := mkSrv (s_log s1) (s_head s1) (s_epoch s1) (s_removed s1) (s_nopres s1)
                        (set_cdoc s1 a ci d') rows (s_threshold s1) in
        (s2, mkResp rcp_s rcp_c pulled snap rvv (s_removed s1), ENone)
      end
    end
  end.

(* clients.Activate / the attach bookkeeping of clients.AttachDocument +
   ClientInfo.AttachDocument: a fresh attachment starts at checkpoint (0,0)
   with the document's current epoch. *)
Definition activate (s : srv) (a : actor) : srv :=
  let d := match aget (s_clients s) a with Some ci => ci_doc ci | None => mkCD DNone 0 0 0 end in
  mkSrv (s_log s) (s_head s) (s_epoch s) (s_removed s) (s_nopres s)
        (aset (s_clients s) a (mkCI true d)) (s_vvrows s) (s_threshold s).

Definition mark_attached (s : srv) (a : actor) : option srv :=
  match aget (s_clients s) a with
  | Some ci =>
      if ci_active ci && negb (is_attached ci)
      then Some (mkSrv (s_log s) (s_head s) (s_epoch s) (s_removed s) (s_nopres s)
                       (aset (s_clients s) a (mkCI true (mkCD DAttached 0 0 (s_epoch s))))
                       (s_vvrows s) (s_threshold s))
      else None
  | None => None
  end.

Definition empty_srv (nopres : bool) (threshold : Z) : srv :=
  mkSrv [] 0 0 false nopres [] [] threshold.

(* packs.Compact + memory CompactChangeInfos: refused while some client has the
   document attached or attaching (unless forced); otherwise the log is replaced
   by the single rebuilt change (or nothing for an empty document), the
   version-vector rows and snapshots are purged, and the epoch is bumped.
   [row] is the rebuilt change the implementation produced. *)
Definition someone_attached (s : srv) : bool :=
  existsb (fun ac => let st := cd_status (ci_doc (snd ac)) in
                     dstatus_eqb st DAttached || dstatus_eqb st DAttaching) (s_clients s).

Definition compact (s : srv) (force : bool) (row : option chdr) : option srv :=
  if negb force && someone_attached s then None
  else Some (mkSrv (match row with Some c => [mkSt 1 c] | None => [] end)
                   (match row with Some _ => 1 | None => 0 end)
                   (s_epoch s + 1) (s_removed s) (s_nopres s) (s_clients s) [] (s_threshold s)).

(* pullSnapshot: which changes the snapshot document is made of, in the order they are applied.
   BuildInternalDocForServerSeq(initialServerSeq) replays the stored log up to the server sequence
   before this request's push; then the changes of the request that THIS request stored - the last
   docInfo.ServerSeq - initialServerSeq of them - are applied on top.  [s] is the server before the
   request, [s2] after it. *)
Definition req_changes (s : srv) (q : req) : list chdr :=
  if s_nopres s then strip_presence (q_changes q) else q_changes q.

Definition pushed_by (s : srv) (q : req) : list chdr :=
  match aget (s_clients s) (q_client q) with
  | None => []
  | Some ci => filter (fun c => negb (h_cseq c <=? cd_cseq (ci_doc ci))) (req_changes s q)
  end.

Definition snapshot_changes (s s2 : srv) (q : req) : list chdr :=
  let n := length (pushed_by s q) in
  map st_ch (firstn (Z.to_nat (s_head s2 - Z.of_nat n)) (s_log s2)) ++
  skipn (length (req_changes s q) - n) (req_changes s q).

(* before fix 56275d99 (finding P45): every change of the request was applied on top *)
Definition snapshot_changes_resend (s s2 : srv) (q : req) : list chdr :=
  let n := length (pushed_by s q) in
  map st_ch (firstn (Z.to_nat (s_head s2 - Z.of_nat n)) (s_log s2)) ++ req_changes s q.
