(* OpShape.v — which time tickets each operation kind must carry.

   [required k] is what api/converter/from_pb.go demands of a bare operation of
   kind k (fromRequiredTimeTicket, fromTextNodePos, fromTreePos, fromElement);
   the operations of a *change* must carry executed_at as well (FromChanges).
   [executor_reads k] is what operations/<k>.go Execute, Root.FindByCreatedAt,
   RegisterElement and the CRDT methods they call dereference without a nil
   check.  A field is named as in resources.proto; "value" stands for the
   element's created_at, "from"/"to" for the created_at tickets inside the
   position. *)
From Coq Require Import List String Bool.
Import ListNotations.
Open Scope string_scope.

Inductive opkind := KSet | KAdd | KMove | KRemove | KEdit | KStyle | KIncrease | KTreeEdit | KTreeStyle | KArraySet.

Definition kind_of (s : string) : option opkind :=
  if s =? "set" then Some KSet else if s =? "add" then Some KAdd else if s =? "move" then Some KMove
  else if s =? "remove" then Some KRemove else if s =? "edit" then Some KEdit else if s =? "style" then Some KStyle
  else if s =? "increase" then Some KIncrease else if s =? "tree_edit" then Some KTreeEdit
  else if s =? "tree_style" then Some KTreeStyle else if s =? "array_set" then Some KArraySet else None.

Definition required (k : opkind) : list string :=
  match k with
  | KSet => ["parent_created_at"; "value"]
  | KAdd => ["parent_created_at"; "prev_created_at"; "value"]
  | KMove => ["parent_created_at"; "prev_created_at"; "created_at"]
  | KRemove => ["parent_created_at"; "created_at"]
  | KEdit => ["parent_created_at"; "from"; "to"]
  | KStyle => ["parent_created_at"; "from"; "to"]
  | KIncrease => ["parent_created_at"; "value"]
  | KTreeEdit => ["parent_created_at"; "from"; "to"]
  | KTreeStyle => ["parent_created_at"; "from"; "to"]
  | KArraySet => ["parent_created_at"; "created_at"; "value"]
  end.

Definition executor_reads (k : opkind) : list string :=
  match k with
  | KSet => ["parent_created_at"; "value"; "executed_at"]             (* FindByCreatedAt, obj.Set, RegisterElement *)
  | KAdd => ["parent_created_at"; "prev_created_at"; "value"; "executed_at"]   (* InsertAfter(prev, value, executedAt) *)
  | KMove => ["parent_created_at"; "prev_created_at"; "created_at"; "executed_at"]
  | KRemove => ["parent_created_at"; "created_at"; "executed_at"]     (* DeleteByCreatedAt *)
  | KEdit => ["parent_created_at"; "from"; "to"; "executed_at"]       (* FindByCreatedAt, text.Edit(from, to, .., executedAt) *)
  | KStyle => ["parent_created_at"; "from"; "to"; "executed_at"]
  | KIncrease => ["parent_created_at"; "value"; "executed_at"]
  | KTreeEdit => ["parent_created_at"; "from"; "to"; "executed_at"]
  | KTreeStyle => ["parent_created_at"; "from"; "to"; "executed_at"]
  | KArraySet => ["parent_created_at"; "created_at"; "value"; "executed_at"]
  end.

Definition mem (s : string) (l : list string) : bool := existsb (String.eqb s) l.

(* verdict of FromOperations on one operation, as far as tickets go *)
Definition op_ok (k : opkind) (present : list string) : bool := forallb (fun f => mem f present) (required k).

(* verdict of FromChanges *)
Definition change_op_ok (k : opkind) (present : list string) : bool := op_ok k present && mem "executed_at" present.

Definition all_kinds := [KSet; KAdd; KMove; KRemove; KEdit; KStyle; KIncrease; KTreeEdit; KTreeStyle; KArraySet].
