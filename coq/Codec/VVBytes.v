(* VVBytes.v — byte-exact model of time.VersionVector.Bytes and
   time.VersionVectorFromBytes (pkg/document/time/version_vector.go).

   Layout: int64 entry count, then per entry 12 bytes of actor id and an int64
   version; int64s are big-endian two's complement.  Every fixed-size field is
   read with io.ReadFull: fewer bytes than the field needs is an error.  The
   entry count is attacker-chosen: the decoder never allocates from it and the
   loop stops at the first short read, so the work is bounded by the input. *)
From Coq Require Import List ZArith NArith Bool Lia.
Import ListNotations.
Open Scope Z_scope.

Definition byte := Z.                                   (* 0..255 *)
Definition actor := list byte.                          (* 12 bytes *)

(* ---- integers ---- *)
Fixpoint be_bytes (n : nat) (u : Z) : list byte :=
  match n with
  | O => []
  | S k => be_bytes k (u / 256) ++ [u mod 256]
  end.

Definition be_value (bs : list byte) : Z := fold_left (fun acc b => acc * 256 + b) bs 0.

Definition two63 : Z := 9223372036854775808.
Definition two64 : Z := 18446744073709551616.

Definition to_int64 (u : Z) : Z := if u <? two63 then u else u - two64.
Definition int64_bytes (v : Z) : list byte := be_bytes 8 (v mod two64).

(* ---- reading ---- *)
(* io.ReadFull: exactly n bytes or an error *)
Definition read_full (n : nat) (l : list byte) : option (list byte * list byte) :=
  if Nat.leb n (length l) then Some (firstn n l, skipn n l) else None.

Definition read_int64 (l : list byte) : option (Z * list byte) :=
  match read_full 8 l with
  | Some (bs, r) => Some (to_int64 (be_value bs), r)
  | None => None
  end.

Definition vvmap := list (actor * Z).

Fixpoint actor_eqb (a b : actor) : bool :=
  match a, b with
  | [], [] => true
  | x :: r, y :: s => (x =? y) && actor_eqb r s
  | _, _ => false
  end.

(* Go map assignment vv[actor] = version *)
Fixpoint vset (m : vvmap) (a : actor) (v : Z) : vvmap :=
  match m with
  | [] => [(a, v)]
  | (b, w) :: r => if actor_eqb a b then (a, v) :: r else (b, w) :: vset r a v
  end.

Fixpoint vget (m : vvmap) (a : actor) : option Z :=
  match m with
  | [] => None
  | (b, w) :: r => if actor_eqb a b then Some w else vget r a
  end.

Inductive dec_result := DecOk (m : vvmap) | DecErr | DecOutOfFuel.

(* for i := int64(0); i < length; i++ { read actor; read version; vv[actor] = version } *)
Fixpoint read_entries (fuel : nat) (count : Z) (l : list byte) (acc : vvmap) : dec_result :=
  if count <=? 0 then DecOk acc else
  match fuel with
  | O => DecOutOfFuel
  | S f =>
      match read_full 12 l with
      | None => DecErr
      | Some (a, r) =>
          match read_int64 r with
          | None => DecErr
          | Some (v, r') => read_entries f (count - 1) r' (vset acc a v)
          end
      end
  end.

Definition vv_decode (l : list byte) : dec_result :=
  match read_int64 l with
  | None => DecErr
  | Some (count, r) => read_entries (S (length r)) count r []
  end.

(* Bytes(): the entries in whatever order the map iteration yields *)
Definition entry_bytes (e : actor * Z) : list byte := fst e ++ int64_bytes (snd e).

Definition vv_encode (m : vvmap) : list byte :=
  int64_bytes (Z.of_nat (length m)) ++ flat_map entry_bytes m.
