(* SnapHeader.v — the one-byte format header of stored snapshots
   (server/backend/database/snapshot_encoding.go).  zstd itself is library code:
   a Section variable with its round trip as hypothesis (trusted base). *)
From Coq Require Import List ZArith.
Import ListNotations.
Open Scope Z_scope.

Section Snap.
  Variable zenc : list Z -> list Z.
  Variable zdec : list Z -> option (list Z).
  Hypothesis zstd_roundtrip : forall d, zdec (zenc d) = Some d.

  Definition compress (d : list Z) : list Z :=
    match d with [] => [] | _ => 1 :: zenc d end.

  Definition decompress (d : list Z) : option (list Z) :=
    match d with
    | [] => Some []
    | b :: r => if b =? 1 then zdec r else Some d
    end.

  Theorem snapshot_header_roundtrip d : decompress (compress d) = Some d.
  Proof. destruct d as [|b r]; [reflexivity|]. cbn. apply zstd_roundtrip. Qed.

  (* snapshots stored before compression existed start with a protobuf tag, never 0x01 *)
  Theorem raw_snapshot_passes_through b r : b <> 1 -> decompress (b :: r) = Some (b :: r).
  Proof. intros H. cbn. destruct (Z.eqb_spec b 1); [contradiction|reflexivity]. Qed.
End Snap.
