(* Codec/PbWire.v — the protobuf wire format as far as api.TimeTicket needs it (every operation,
   element and change id carries tickets): base-128 varints as google.golang.org/protobuf
   protowire.AppendVarint / ConsumeVarint handle them, tags, length-delimited fields, skipping of
   unknown fields, and the TimeTicket message { int64 lamport = 1; uint32 delimiter = 2;
   bytes actor_id = 3 }.  Bytes are N below 256.  Definitions only. *)
From Coq Require Export List NArith ZArith Bool.
Export ListNotations.
Local Open Scope N_scope.

(* ---- varint ---- *)
Fixpoint venc (fuel : nat) (n : N) : list N :=
  match fuel with
  | O => []
  | S f => if n <? 128 then [n] else (n mod 128 + 128) :: venc f (n / 128)
  end.

Definition varint (n : N) : list N := venc 10 n.

(* ConsumeVarint: at most ten bytes; the tenth may only contribute bit 63 *)
Fixpoint vdec (fuel : nat) (i : N) (acc : N) (bs : list N) : option (N * list N) :=
  match fuel, bs with
  | O, _ => None
  | _, [] => None
  | S f, b :: r =>
      if i =? 9 then (if b <? 2 then Some (acc + b * 2 ^ 63, r) else None)
      else if b <? 128 then Some (acc + b * 2 ^ (7 * i), r)
      else vdec f (i + 1) (acc + (b - 128) * 2 ^ (7 * i)) r
  end.

Definition read_varint (bs : list N) : option (N * list N) := vdec 10 0 0 bs.

(* ---- tags, bytes, unknown fields ---- *)
Fixpoint take (n : nat) (l : list N) : option (list N * list N) :=
  match n, l with
  | O, _ => Some ([], l)
  | S k, x :: r => match take k r with Some (a, b) => Some (x :: a, b) | None => None end
  | S _, [] => None
  end.

(* ConsumeBytes: a length, then that many bytes *)
Definition read_bytes (bs : list N) : option (list N * list N) :=
  match read_varint bs with
  | Some (len, r) => if len <=? N.of_nat (length r) then take (N.to_nat len) r else None
  | None => None
  end.

(* ConsumeTag (used while skipping groups): field number at least 1, at most MaxInt32 *)
Definition read_tag (bs : list N) : option (N * N * list N) :=
  match read_varint bs with
  | Some (v, r) => if (2 ^ 31 - 1 <? v / 8) || (v / 8 <? 1) then None else Some (v / 8, v mod 8, r)
  | None => None
  end.

Inductive skmode := MValue (num wt : N) | MGroup (num : N).

(* ConsumeFieldValue: the rest of the input after one value of the given wire type *)
Fixpoint skip (fuel : nat) (m : skmode) (bs : list N) : option (list N) :=
  match fuel with
  | O => None
  | S f =>
      match m with
      | MValue num wt =>
          if wt =? 0 then option_map snd (read_varint bs)
          else if wt =? 1 then option_map snd (take 8 bs)
          else if wt =? 2 then option_map snd (read_bytes bs)
          else if wt =? 5 then option_map snd (take 4 bs)
          else if wt =? 3 then skip f (MGroup num) bs
          else None
      | MGroup num =>
          match read_tag bs with
          | None => None
          | Some (num2, wt2, r) =>
              if wt2 =? 4 then (if num2 =? num then Some r else None)
              else match skip f (MValue num2 wt2) r with
                   | Some r' => skip f (MGroup num) r'
                   | None => None
                   end
          end
      end
  end.

(* ---- message TimeTicket { int64 lamport = 1; uint32 delimiter = 2; bytes actor_id = 3; } ---- *)
Record ptk := mkPT { pt_lam : Z; pt_delim : N; pt_actor : list N }.

Definition pb_of_int64 (z : Z) : N := Z.to_N (z mod 2 ^ 64).
Definition pb_to_int64 (u : N) : Z := if u <? 2 ^ 63 then Z.of_N u else (Z.of_N u - 2 ^ 64)%Z.

(* proto3: a field holding its zero value is not written; fields go out in number order *)
Definition encode_ticket (t : ptk) : list N :=
  (if Z.eqb (pt_lam t) 0 then [] else 8 :: varint (pb_of_int64 (pt_lam t))) ++
  (if pt_delim t =? 0 then [] else 16 :: varint (pt_delim t)) ++
  (match pt_actor t with [] => [] | a => 26 :: varint (N.of_nat (length a)) ++ a end).

(* unmarshalPointerEager for this message *)
Fixpoint parse (fuel : nat) (m : ptk) (bs : list N) : option ptk :=
  match fuel with
  | O => None
  | S f =>
      match bs with
      | [] => Some m
      | _ =>
          match read_varint bs with
          | None => None
          | Some (tag, r) =>
              let num := tag / 8 in
              let wt := tag mod 8 in
              if (num <? 1) || (2 ^ 29 - 1 <? num) then None
              else if wt =? 4 then None
              else if (num =? 1) && (wt =? 0) then
                match read_varint r with
                | Some (v, r') => parse f (mkPT (pb_to_int64 v) (pt_delim m) (pt_actor m)) r'
                | None => None
                end
              else if (num =? 2) && (wt =? 0) then
                match read_varint r with
                | Some (v, r') => parse f (mkPT (pt_lam m) (v mod 2 ^ 32) (pt_actor m)) r'
                | None => None
                end
              else if (num =? 3) && (wt =? 2) then
                match read_bytes r with
                | Some (a, r') => parse f (mkPT (pt_lam m) (pt_delim m) a) r'
                | None => None
                end
              else
                match skip (2 * length r + 2) (MValue num wt) r with
                | Some r' => parse f m r'
                | None => None
                end
          end
      end
  end.

Definition decode_ticket (bs : list N) : option ptk := parse (S (length bs)) (mkPT 0 0 []) bs.
