(* YsonText.v — the text path of YSON (pkg/document/yson/yson.go): before handing
   the text to encoding/json, Unmarshal rewrites it with an ordered list of global
   strings.ReplaceAll calls (preprocessTypeValues), and numbers come back through
   float64.  Both are modelled exactly: [replace_all] is Go's ReplaceAll for a
   non-empty pattern (leftmost, non-overlapping), [replacements] is the list in the
   source in its order, [fl64] is round-to-nearest-even to 53 significant bits.
   (The DedupCounter regular expression that runs first is not modelled; texts
   containing "DedupCounter(" are outside these definitions.) *)
From Coq Require Import String Ascii List ZArith Bool Lia.
Import ListNotations.
Open Scope string_scope.

Fixpoint drop (n : nat) (s : string) : string :=
  match n, s with
  | O, _ => s
  | S k, String _ r => drop k r
  | S _, EmptyString => EmptyString
  end.

Fixpoint replace_all_aux (fuel : nat) (old new s : string) : string :=
  match fuel with
  | O => s
  | S f =>
      match s with
      | EmptyString => EmptyString
      | String c r =>
          if prefix old s then new ++ replace_all_aux f old new (drop (String.length old) s)
          else String c (replace_all_aux f old new r)
      end
  end.

Definition replace_all (old new s : string) : string := replace_all_aux (S (String.length s)) old new s.

Definition replacements : list (string * string) :=
  [ ("Text()", "{""type"":""Text"",""value"":[]}");
    ("Tree()", "{""type"":""Tree"",""value"":{}}");
    ("Counter(", "{""type"":""Counter"",""value"":");
    ("Text(", "{""type"":""Text"",""value"":");
    ("Tree(", "{""type"":""Tree"",""value"":");
    ("Int(", "{""type"":""Int"",""value"":");
    ("Long(", "{""type"":""Long"",""value"":");
    ("BinData(""", "{""type"":""BinData"",""value"":""");
    ("Date(""", "{""type"":""Date"",""value"":""");
    (")", "}") ].

Definition preprocess (s : string) : string :=
  fold_left (fun acc r => replace_all (fst r) (snd r) acc) replacements s.

(* does [old] occur in [s]? *)
Fixpoint occurs (old s : string) : bool :=
  match s with
  | EmptyString => prefix old EmptyString
  | String _ r => prefix old s || occurs old r
  end.

Definition text_safe (s : string) : bool := forallb (fun r => negb (occurs (fst r) s)) replacements.

(* ---- numbers ---- *)
Open Scope Z_scope.
Definition fl64 (z : Z) : Z :=
  let a := Z.abs z in
  if a <? 2 ^ 53 then z else
  let e := Z.log2 a - 52 in
  let q := a / 2 ^ e in
  let r := a mod 2 ^ e in
  let half := 2 ^ (e - 1) in
  let q' := if r <? half then q else if half <? r then q + 1 else if Z.even q then q else q + 1 in
  Z.sgn z * q' * 2 ^ e.
