(* ChangeID.v — model of pkg/document/change/id.go and the clock part of
   change/context.go (NextID / ToChange) and internal_document.go. *)
From YV Require Export Base.VV.

Record cid := mkID { cseq : Z; sseq : Z; lamp : Z; actr : actor; cvv : vv }.

Definition initial_id : cid := mkID 0 0 0 0%N [].

(* ID.Next() *)
Definition id_next (i : cid) : cid :=
  mkID (cseq i + 1) 0 (lamp i + 1) (actr i) (vset (cvv i) (actr i) (lamp i + 1)).

(* ID.Next(true): presence-only, no clocks. *)
Definition id_next_noclock (i : cid) : cid :=
  mkID (cseq i + 1) 0 0 (actr i) [].

Definition has_clocks (i : cid) : bool :=
  negb (Nat.eqb (length (cvv i)) 0) && negb (Z.eqb (lamp i) 0).

Definition sync_clocks (i o : cid) : cid :=
  if has_clocks o then
    let l := Z.max (lamp i) (lamp o) + 1 in
    mkID (cseq i) 0 l (actr i) (vset (vmax (cvv i) (cvv o)) (actr i) l)
  else i.

Definition sync_lamport (i o : cid) : cid :=
  if has_clocks o then
    let l := Z.max (lamp i) (lamp o) + 1 in
    mkID (cseq i) 0 l (actr i) (vset (cvv i) (actr i) l)
  else i.

Definition set_clocks (i : cid) (olam : Z) (v : vv) : cid :=
  let l := Z.max (lamp i) olam + 1 in
  mkID (cseq i) (sseq i) l (actr i) (vset (vmax (cvv i) v) (actr i) l).

Definition set_actor (i : cid) (a : actor) : cid :=
  mkID (cseq i) 0 (lamp i) a (cvv i).

(* Context.NextID / ToChange: [nops = 0] is a presence-only change. *)
Definition ctx_next_id (prev : cid) (has_ops : bool) : cid :=
  if has_ops then id_next prev
  else mkID (cseq prev + 1) 0 (lamp prev) (actr prev) (cvv prev).

Definition ctx_change_id (prev : cid) (has_ops : bool) : cid :=
  if has_ops then id_next prev else id_next_noclock prev.

(* --- the clock life of one replica ------------------------------------- *)
(* Events that touch InternalDocument.changeID. *)
Inductive cev :=
| EvLocal (has_ops : bool)              (* Document.Update producing a change *)
| EvRemote (o : cid)                    (* applyChange of a remote change *)
| EvSnapshot (v : vv)                   (* applySnapshot: SetClocks(v.MaxLamport(), v) *)
| EvSetActor (a : actor).

(* [optout] = attached WithDisableGC: remote changes only advance lamport. *)
Definition clock_step (optout : bool) (i : cid) (e : cev) : cid * option cid :=
  match e with
  | EvLocal h => (ctx_next_id i h, Some (ctx_change_id i h))
  | EvRemote o => ((if optout then sync_lamport i o else sync_clocks i o), None)
  | EvSnapshot v => (set_clocks i (vmaxlamport v) v, None)
  | EvSetActor a => (set_actor i a, None)
  end.

(* run, collecting (in order) the ids of the changes produced locally *)
Fixpoint clock_run (optout : bool) (i : cid) (es : list cev) : cid * list cid :=
  match es with
  | [] => (i, [])
  | e :: r =>
      let '(i', out) := clock_step optout i e in
      let '(j, outs) := clock_run optout i' r in
      (j, match out with Some c => c :: outs | None => outs end)
  end.
