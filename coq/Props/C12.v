(* Props/C12.v — presence obeys the document's presence setting (server side):
   on a presenceless document no request, whatever it carries, makes the server
   store or return presence.  "After synchronisation every client sees the same
   presence" is decided by the oracle of the presence histories (AllPresences
   on all replicas), with the delivery theorems of C04 as its basis: presence
   rides in the same totally ordered, exactly-once delivered changes. *)
From YV Require Import Proto.Server Proofs.PresenceProofs.

Theorem C12_presenceless_stores_nothing : forall s q s2 r e,
  s_nopres s = true -> push_pull s q = (s2, r, e) ->
  exists new, s_log s2 = s_log s ++ new /\ Forall (fun st => no_pres (st_ch st)) new.
Proof. exact presenceless_stores_no_presence. Qed.
Print Assumptions C12_presenceless_stores_nothing.

Theorem C12_presenceless_returns_nothing : forall s q s2 r e,
  s_nopres s = true -> push_pull s q = (s2, r, e) ->
  Forall (fun st => no_pres (st_ch st)) (p_changes r).
Proof. exact presenceless_returns_no_presence. Qed.
Print Assumptions C12_presenceless_returns_nothing.
