(* Props/C16.v — the sync pipeline is free of deadlocks (proved) and of data races
   (searched).

   Deadlock freedom: any number of threads, each taking named reader/writer locks
   (writer preference, as Go's RWMutex gives pkg/locker) in strictly increasing
   class order and releasing everything when done, can always make a step: for
   every reachable state, under every schedule.  The premise — every handler's
   acquisition sequence follows doc < pull < attachment < push < snapshot < watch
   among its blocking acquisitions — is checked on every run against the table
   the translator lockscan extracts from /repo's sources (Corr/Locks.v).  The
   pull-before-doc order that ClusterService.DetachDocument had before its repair
   is exhibited as a three-party deadlock of the same model.

   Data-race freedom and memory safety are properties of the Go memory model that
   no executable Gallina model exhibits: PARTIAL — searched by the parallel
   workload under the race detector (engine locks), not proved. *)
From Coq Require Import List.
From YV Require Import Conc.Locks Proofs.LockProofs.
Import ListNotations.

Theorem C16_progress : forall s, ordered s = true -> s <> [] -> exists i, enabled s i = true.
Proof. exact progress. Qed.
Print Assumptions C16_progress.

Theorem C16_deadlock_free : forall s sched, ordered s = true ->
  let s' := fold_left step sched s in s' = [] \/ exists i, enabled s' i = true.
Proof. exact deadlock_free. Qed.
Print Assumptions C16_deadlock_free.

(* for the extracted table: any number of threads, each running some handler on some key *)
Theorem C16_handlers_deadlock_free : forall table threads sched,
  forallb seq_ordered table = true ->
  let s := map (fun p => thread_of (nth (fst p) table []) (snd p)) threads in
  let s' := fold_left step sched s in
  s' = [] \/ exists i, enabled s' i = true.
Proof. exact handlers_deadlock_free. Qed.
Print Assumptions C16_handlers_deadlock_free.

Theorem C16_pull_before_doc_refuted :
  let doc := (1, 7) in let pull := (2, 7) in
  let s := [ mkThread [(doc, MRead)] [(pull, MWrite)];
             mkThread [(pull, MWrite)] [(doc, MRead)];
             mkThread [] [(doc, MWrite)] ] in
  forallb (enabled s) [0; 1; 2] = false /\ enabled s 0 = false /\ enabled s 1 = false /\ enabled s 2 = false.
Proof. exact pull_before_doc_deadlocks. Qed.
Print Assumptions C16_pull_before_doc_refuted.
