(* Props/C17.v — a watcher is told about every change made after it subscribed.

   The model (Conc/PubSub.v) has the critical sections of
   server/backend/pubsub as atomic actions and lets them interleave arbitrarily:
   any number of subscribers, publishers and ticks, with threads holding stale
   pointers to Subscriptions objects that have left the map.  "Within bounded
   time" is wall-clock and is checked on the implementation (engine pubsub, also
   under the race detector); the theorems are the safety part: once Subscribe(s)
   has returned, an event whose Publish starts later stays tracked for s through
   every interleaving in which s has not started to unsubscribe — delivered,
   queued in (or about to be queued in) the open object s belongs to, or s's
   channel closed — and one tick of that object delivers it. *)
From Coq Require Import List.
From YV Require Import Conc.PubSub Proofs.PubSubProofs.
Import ListNotations.

Theorem C17_no_lost_event : forall A s B e C,
  forallb (fun a => negb (unsub_of s a)) (B ++ C) = true ->
  fresh_event e (A ++ ASubscribe s :: B) = true -> fresh_event e C = true ->
  Tracked s e (run init (A ++ ASubscribe s :: B ++ APubGet e :: C)).
Proof. exact no_lost_event. Qed.
Print Assumptions C17_no_lost_event.

Theorem C17_tick_delivers : forall s e t o x, Inv t ->
  find_obj (objs t) o = Some x -> In s (o_members x) -> o_open x = true -> In e (o_queue x) ->
  In s (closed t) \/ In (s, e) (got (step t (AFlush o))).
Proof. exact flush_delivers. Qed.
Print Assumptions C17_tick_delivers.

(* the invariant behind both: a Subscriptions object that has a member is the current
   map entry and its publisher is running — in every reachable state *)
Theorem C17_invariant : forall tr, Inv (run init tr).
Proof. intros tr. apply inv_run, inv_init. Qed.
Print Assumptions C17_invariant.

(* no leak: when the last member has gone the Delete callback removes the entry *)
Theorem C17_entry_removed_when_empty : forall t, Inv t ->
  (forall x, In x (objs t) -> o_members x = []) -> entry (step t AUnsubDrop) = None.
Proof. exact drop_when_empty. Qed.
Print Assumptions C17_entry_removed_when_empty.
