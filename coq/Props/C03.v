(* Props/C03.v — garbage collection never breaks a later edit.  Proved parts:
   purging dead positions does not change what is visible; a purge decision
   taken with the server's minimum vector is justified by every vector it was
   computed from; the vector handed out is such a minimum; a push-only
   response carries no vector (the repaired P23).  PARTIAL: "content(GC on) =
   content(GC off) for every history" is decided by the twin-run oracle of the
   hist engine, not by a theorem (the stopper finding P4 refutes it for
   arrays/text in general). *)
From YV Require Proofs.GCWitness.
From YV Require Import Base.Ticket Base.VV Proto.Server Proto.System Proofs.FaultProofs Proofs.GCSafety.
From YV Require Import Base.VV Crdt.RGAList Proto.Server Proofs.VVProofs Proofs.RGAProofs Proofs.ProtoProofs.

Theorem C03_purge_view_invariant : forall g p,
  (forall s, In s (slots g) -> sl_pos s = p -> slot_live g s = None) ->
  visible (purge_slot g p) = visible g.
Proof. exact visible_purge_slot. Qed.
Print Assumptions C03_purge_view_invariant.

Theorem C03_purge_needs_everybody : forall vs t r,
  (forall v, In v vs -> vv_nonneg v) -> In r vs -> 0 < lam t ->
  vcovers (min_vv vs) t = true -> vcovers r t = true.
Proof. exact min_vv_covers_all. Qed.
Print Assumptions C03_purge_needs_everybody.

Theorem C03_response_vector_is_minimum : forall s q s2 r m,
  push_pull s q = (s2, r, ENone) -> p_vv r = Some m ->
  m = min_vv (q_vv q :: map snd (s_vvrows s2)).
Proof. exact push_pull_minvv. Qed.
Print Assumptions C03_response_vector_is_minimum.

(* the full statement is false of the faithful model: a purged tombstone changes where a later,
   causally older insert lands (finding P4; the same witness diverges real replicas) *)
Theorem C03_purged_stopper_refuted :
  YV.Proofs.GCWitness.p4_without_purge = Some [100; 150; 250; 300]%Z /\
  YV.Proofs.GCWitness.p4_with_purge = Some [100; 250; 150; 300]%Z.
Proof. exact YV.Proofs.GCWitness.purged_stopper_changes_order. Qed.
Print Assumptions C03_purged_stopper_refuted.

(* finding P42 (repaired by e73842df): the position a losing move leaves behind may be purged only
   when everybody has seen the WINNING move; its author may still anchor operations on it *)
Theorem C03_losing_move_position_carries_winner :
  YV.Proofs.GCWitness.removed_of YV.Proofs.GCWitness.mv_WL YV.Proofs.GCWitness.mv_L = Some (Some YV.Proofs.GCWitness.mv_W) /\
  YV.Proofs.GCWitness.removed_of YV.Proofs.GCWitness.mv_LW YV.Proofs.GCWitness.mv_L = Some (Some YV.Proofs.GCWitness.mv_W) /\
  option_map RGAList.visible (YV.Proofs.GCWitness.obind YV.Proofs.GCWitness.mv_WL YV.Proofs.GCWitness.mv_next) = Some [20; 10; 30]%Z /\
  option_map RGAList.visible (YV.Proofs.GCWitness.obind YV.Proofs.GCWitness.mv_LW YV.Proofs.GCWitness.mv_next) = Some [20; 10; 30]%Z /\
  YV.Proofs.GCWitness.obind YV.Proofs.GCWitness.mv_WL (fun g => YV.Proofs.GCWitness.mv_next (purge_slot g YV.Proofs.GCWitness.mv_L)) = None.
Proof. exact YV.Proofs.GCWitness.losing_move_position_carries_winner. Qed.
Print Assumptions C03_losing_move_position_carries_winner.

(* finding P4 in the text structure (same skip rule): the model witness, which the textrga engine
   replays on the real crdt.Text on every run ("amxc" with the tombstone, "axmc" without) *)
Theorem C03_text_purged_stopper_refuted :
  YV.Proofs.GCWitness.tx_without_purge = Some [97; 109; 120; 99]%N /\
  YV.Proofs.GCWitness.tx_with_purge = Some [97; 120; 109; 99]%N.
Proof. exact YV.Proofs.GCWitness.text_purged_stopper_changes_order. Qed.
Print Assumptions C03_text_purged_stopper_refuted.

(* finding P11 on the protocol model: handled in one piece a sync leaves no older change behind; with
   the pull range read before, and the minimum after, another client's two syncs it does *)
Theorem C03_stale_minimum_refuted :
  undelivered_older p11_s1 p11_R (snd (fst (push_pull p11_s1 p11_qR))) = nil /\
  undelivered_older p11_s3 p11_R (snd (fst (push_pull p11_s3 p11_qR))) = nil /\
  map (fun st => h_actor (st_ch st)) (undelivered_older p11_s3 p11_R (stale_pull p11_s1 p11_s3 p11_qR)) = (p11_M :: nil) /\
  p_vv (stale_pull p11_s1 p11_s3 p11_qR) = Some ((p11_R, 2%Z) :: (p11_M, 0%Z) :: nil).
Proof. exact stale_minimum_outruns_the_pull. Qed.
Print Assumptions C03_stale_minimum_refuted.

(* the positive counterpart: with requests handled in one piece and clients whose vectors only
   grow, the vector of a response is safe to collect garbage with.  For every reachable state and
   every sync: (A) every change of another client that the server has not stored yet was made
   knowing everything the vector says everybody knows; (B) everything stored has been delivered. *)
Theorem C03_minimum_vector_is_safe : forall th actors yg es a k g v,
  dreach th actors yg es ->
  aget (y_clis (fst yg)) a = Some k -> aget (snd yg) a = Some g -> vle g v -> vv_nonneg v ->
  exists s2 r,
    push_pull (y_srv (fst yg)) (mk_request a k MPushPull v) = (s2, r, ENone) /\
    forall mv, p_vv r = Some mv ->
      (forall b kb cib row c, b <> a ->
         aget (y_clis (fst yg)) b = Some kb -> aget (s_clients s2) b = Some cib ->
         aget (s_vvrows s2) b = Some row ->
         In c (k_pending kb) -> cd_cseq (ci_doc cib) < h_cseq c -> vle mv (h_vv c)) /\
      (p_snapshot r = false -> k_snap k = false ->
         k_recv (apply_resp k r) = not_of a (s_log s2)).
Proof. exact gc_safe. Qed.
Print Assumptions C03_minimum_vector_is_safe.
