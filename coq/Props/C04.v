(* Props/C04.v — property C04: the per-document change log is gap-free, totally
   ordered, and delivered exactly once.  Statements only; proofs are [exact]s. *)
From YV Require Import Proto.Server Proto.System Proofs.ProtoProofs.

(* For ANY number of honest clients, ANY sequence of local changes, syncs,
   push-only syncs and lost responses (= retries), in ANY interleaving: *)

(* serverSeq of the stored changes is exactly 1..N *)
Theorem C04_log_dense : forall th actors es,
  let s := y_srv (srun (init_sys th actors) es) in
  map st_sseq (s_log s) = zseq 1 (length (s_log s)) /\ s_head s = Z.of_nat (length (s_log s)).
Proof. exact c04_log_dense. Qed.
Print Assumptions C04_log_dense.

(* for each actor, clientSeq is 1..k in increasing serverSeq *)
Theorem C04_per_actor_order : forall th actors es a k,
  let y := srun (init_sys th actors) es in
  aget (y_clis y) a = Some k -> exists n, cseqs_of a (s_log (y_srv y)) = zseq 1 n.
Proof. exact c04_per_actor_order. Qed.
Print Assumptions C04_per_actor_order.

(* the concatenation of everything a client pulled equals the log restricted
   to the other actors, up to its checkpoint, in order: exactly once, no echo
   (for a client whose stream was not replaced by a snapshot) *)
Theorem C04_exactly_once : forall th actors es a k,
  let y := srun (init_sys th actors) es in
  aget (y_clis y) a = Some k -> k_snap k = false ->
  k_recv k = not_of a (firstn (Z.to_nat (k_cp_s k)) (s_log (y_srv y))).
Proof. exact c04_exactly_once. Qed.
Print Assumptions C04_exactly_once.

(* checkpoints never exceed the log head *)
Theorem C04_checkpoint_bounded : forall th actors es a k,
  let y := srun (init_sys th actors) es in
  aget (y_clis y) a = Some k -> 0 <= k_cp_s k <= s_head (y_srv y).
Proof. exact c04_checkpoint_bounded. Qed.
Print Assumptions C04_checkpoint_bounded.

(* whatever the request (hostile ones included), PushPull only appends rows
   with consecutive serverSeq: density is kept by EVERY request *)
Theorem C04_any_request_keeps_density : forall s q s2 r e,
  log_dense s -> push_pull s q = (s2, r, e) -> log_dense s2.
Proof. exact log_dense_push_pull. Qed.
Print Assumptions C04_any_request_keeps_density.
