(* Props/C06.v — property C06: logical clocks are causal and the server's
   minimum vector never overstates.  Statements only; every proof is an
   [exact] of a lemma from Proofs/. *)
From YV Require Import Base.VV Clock.ChangeID Proofs.VVProofs Proofs.ClockProofs.

(* vv(c)[actor(c)] == lamport(c) for every clocked change a replica makes *)
Theorem C06_own_entry : forall optout es i c,
  In (true, c) (clock_trace optout i es) -> has_clocks c = true ->
  vget (cvv c) (actr c) = Some (lamp c).
Proof. exact clock_own_entry. Qed.
Print Assumptions C06_own_entry.

(* for every change d made or applied at the author before c was made:
   lamport(c) > lamport(d) and vv(c) >= vv(d) pointwise (GC-participating authors) *)
Theorem C06_causal : forall es i,
  id_wf i -> remotes_wf es ->
  forall t1 c t2, clock_trace false i es = t1 ++ (true, c) :: t2 -> has_clocks c = true ->
  forall d, clocked_in t1 d -> lamp d < lamp c /\ vv_le (cvv d) (cvv c).
Proof. exact clock_causal. Qed.
Print Assumptions C06_causal.

(* authors attached with WithDisableGC keep lamport strictness only *)
Theorem C06_causal_optout_lamport : forall es i,
  id_wf i -> remotes_wf es ->
  forall t1 c t2, clock_trace true i es = t1 ++ (true, c) :: t2 -> has_clocks c = true ->
  forall d, clocked_in t1 d -> lamp d < lamp c.
Proof. exact clock_causal_optout. Qed.
Print Assumptions C06_causal_optout_lamport.

(* timestamps of one author only grow; with distinct actors per replica this
   makes (lamport, actor) unique per document *)
Theorem C06_actor_monotone : forall optout es i,
  id_wf i -> remotes_wf es ->
  forall t1 c t2 d, clock_trace optout i es = t1 ++ (true, c) :: t2 -> has_clocks c = true ->
  In (true, d) t1 -> has_clocks d = true -> lamp d < lamp c.
Proof. exact clock_actor_monotone. Qed.
Print Assumptions C06_actor_monotone.

(* the minimum version vector never exceeds any vector it was computed from *)
Theorem C06_minvv_never_overstates : forall vs r a,
  (forall v, In v vs -> vv_nonneg v) -> In r vs -> vget0 (min_vv vs) a <= vget0 r a.
Proof. exact min_vv_never_overstates. Qed.
Print Assumptions C06_minvv_never_overstates.

(* consequently a tombstone the minimum vector covers is covered by everybody *)
Theorem C06_minvv_purge_justified : forall vs t r,
  (forall v, In v vs -> vv_nonneg v) -> In r vs -> 0 < lam t ->
  vcovers (min_vv vs) t = true -> vcovers r t = true.
Proof. exact min_vv_covers_all. Qed.
Print Assumptions C06_minvv_purge_justified.

(* system level: the vector a PushPull response carries is the minimum over the
   requester's vector and every stored row, hence never above any attached
   client's row *)
From YV Require Import Proto.Server Proofs.ProtoProofs.
Theorem C06_response_minvv_sound : forall s q s2 r m,
  push_pull s q = (s2, r, ENone) -> p_vv r = Some m ->
  vv_nonneg (q_vv q) -> (forall b row, In (b, row) (s_vvrows s2) -> vv_nonneg row) ->
  forall b row x, In (b, row) (s_vvrows s2) -> vget0 m x <= vget0 row x.
Proof. exact minvv_sound. Qed.
Print Assumptions C06_response_minvv_sound.
