(* Props/C18.v — any reachable document survives the YSON round trip used by
   compaction and revisions.

   Two paths exist.  The value path (FromCRDT -> SetYSON, used by packs.Compact)
   has no Coq model: it is decided by the yson engine on every reachable document
   and generated literal (PARTIAL).  The text path (Marshal -> Unmarshal, used by
   revision restore) is modelled where it deviates from JSON: the global
   ReplaceAll rewriting and the float64 number parse.  The theorems say exactly
   where the text path is the identity, and exhibit inputs where it is not
   (finding P9); the model is compared with yson.Unmarshal on every run. *)
From Coq Require Import String ZArith.
From YV Require Import Codec.YsonText Proofs.YsonProofs.

Theorem C18_text_path_identity_on_safe_text : forall s, text_safe s = true -> preprocess s = s.
Proof. exact preprocess_identity_on_safe_text. Qed.
Print Assumptions C18_text_path_identity_on_safe_text.

Theorem C18_text_path_refuted : exists s, text_safe s = false /\ preprocess s <> s.
Proof. exact text_path_not_identity. Qed.
Print Assumptions C18_text_path_refuted.

Theorem C18_long_exact_up_to_2_53 : forall z, (Z.abs z <= 2 ^ 53)%Z -> fl64 z = z.
Proof. exact fl64_exact. Qed.
Print Assumptions C18_long_exact_up_to_2_53.

Theorem C18_long_refuted_beyond_2_53 : fl64 (2 ^ 53 + 1) <> (2 ^ 53 + 1)%Z.
Proof. exact fl64_loses_low_bits. Qed.
Print Assumptions C18_long_refuted_beyond_2_53.
