(* Props/C08.v — Update is all-or-nothing and the user-visible copy equals the
   real document.  The document layer is proved over an abstract CRDT layer
   (Section variables of Proofs/DocProofs.v); the hypothesis [proxy_agrees]
   ("executing the pushed operations on the root gives what the proxy did to
   the clone") is named in the trusted base and is what the differential run
   validates on the real code after every step. *)
From Coq Require Import List.
From YV Require Import Proofs.DocProofs Base.Ticket Crdt.TextRGA Proofs.OptOutWitness.

Theorem C08_failed_update_is_noop :
  forall (R Op Edit : Type) (exec : R -> Op -> option R) (run_edit : R -> Edit -> option (R * list Op))
         (d : doc R Op) (es : list Edit),
  d_root _ _ (update _ _ _ exec run_edit d es (Fails)) = d_root _ _ d /\
  d_local _ _ (update _ _ _ exec run_edit d es (Fails)) = d_local _ _ d /\
  d_undo _ _ (update _ _ _ exec run_edit d es (Fails)) = d_undo _ _ d /\
  shown _ _ (update _ _ _ exec run_edit d es (Fails)) = d_root _ _ d.
Proof. exact failed_update_is_noop. Qed.
Print Assumptions C08_failed_update_is_noop.

Theorem C08_clone_equals_root :
  forall (R Op Edit : Type) (exec : R -> Op -> option R) (run_edit : R -> Edit -> option (R * list Op)),
  (forall r e r' ops, run_edit r e = Some (r', ops) -> exec_all _ _ exec r ops = Some r') ->
  forall (l : list (list Edit * outcome)) (d : doc R Op),
    consistent _ _ d ->
    consistent _ _ (fold_left (fun d eo => update _ _ _ exec run_edit d (fst eo) (snd eo)) l d).
Proof. exact updates_consistent. Qed.
Print Assumptions C08_clone_equals_root.

(* finding P6: [proxy_agrees] fails for an opt-out attachment (WithDisableGC).  The clone gets the
   edit as a local edit, the root executes the change with its own version vector, which names the
   author only: a character somebody else typed is deleted on the clone and kept on the root *)
Theorem C08_optout_proxy_disagrees_refuted :
  option_map visible oo_on_clone = Some (98%N :: nil) /\
  option_map visible oo_on_root = Some (97%N :: 98%N :: nil) /\
  option_map visible oo_on_root_with_full_vector = Some (98%N :: nil).
Proof. exact optout_delete_clone_and_root_differ. Qed.
Print Assumptions C08_optout_proxy_disagrees_refuted.
