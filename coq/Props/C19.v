(* Props/C19.v — concurrent tree edits converge pairwise.
   The property's own quantifier is a finite named matrix (1592 pairs x sync
   orders x snapshot-fed third replica).  The tree CRDT itself (crdt/tree.go:
   merge forwarding, splits, unknown-split-sibling sweeps) has NO Coq model in
   this development, so the matrix is decided by exhaustive execution on the
   real code (engine tree), not by a theorem.  PARTIAL: what is proved is the
   convergence of the attribute tables that Tree.Style / RemoveStyle (and
   Text.Style) write: every node's attributes are last-writer-wins registers,
   and any two style operations with distinct tickets commute on every table. *)
From YV Require Import Crdt.RHT Proofs.RHTProofs.

Theorem C19_style_ops_commute_partial : forall h a b,
  aop_ticket a <> aop_ticket b ->
  req (rht_apply (rht_apply h a) b) (rht_apply (rht_apply h b) a).
Proof. exact rht_ops_commute. Qed.
Print Assumptions C19_style_ops_commute_partial.

Theorem C19_observably_equal_tables_read_alike : forall h1 h2,
  req h1 h2 -> forall k, rht_get h1 k = rht_get h2 k.
Proof. exact req_get. Qed.
Print Assumptions C19_observably_equal_tables_read_alike.

Theorem C19_later_ops_respect_observable_equality : forall h1 h2 o,
  req h1 h2 -> req (rht_apply h1 o) (rht_apply h2 o).
Proof. exact apply_respects. Qed.
Print Assumptions C19_later_ops_respect_observable_equality.
