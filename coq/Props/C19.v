(* Props/C19.v — concurrent tree edits converge pairwise.
   The property's own quantifier is a finite named matrix (1592 pairs x sync
   orders x snapshot-fed third replica).  The tree CRDT itself (crdt/tree.go:
   merge forwarding, splits, unknown-split-sibling sweeps) has NO Coq model in
   this development, so the matrix is decided by exhaustive execution on the
   real code (engine tree), not by a theorem.  PARTIAL: what is proved is
   (1) the convergence of the attribute tables that Tree.Style / RemoveStyle (and
   Text.Style) write: every node's attributes are last-writer-wins registers,
   and any two style operations with distinct tickets commute on every table;
   (2) the edit-edit pairs whose ranges lie in the text of one element: on the
   character-level model of Tree.Edit for that fragment (Crdt/TreeText.v, tied to
   the real crdt.Tree by engine treetext) two concurrent edits commute. *)
From YV Require Import Crdt.RHT Proofs.RHTProofs.
From YV Require Import Base.Ticket Crdt.TextRGA Crdt.TreeText Proofs.TextProofs Proofs.TreeTextProofs.

Theorem C19_style_ops_commute_partial : forall h a b,
  aop_ticket a <> aop_ticket b ->
  req (rht_apply (rht_apply h a) b) (rht_apply (rht_apply h b) a).
Proof. exact rht_ops_commute. Qed.
Print Assumptions C19_style_ops_commute_partial.

Theorem C19_observably_equal_tables_read_alike : forall h1 h2,
  req h1 h2 -> forall k, rht_get h1 k = rht_get h2 k.
Proof. exact req_get. Qed.
Print Assumptions C19_observably_equal_tables_read_alike.

Theorem C19_later_ops_respect_observable_equality : forall h1 h2 o,
  req h1 h2 -> req (rht_apply h1 o) (rht_apply h2 o).
Proof. exact apply_respects. Qed.
Print Assumptions C19_later_ops_respect_observable_equality.

(* text inside one element: two concurrent edits (insert, delete, replace of character ranges),
   each made on a state the other had not seen, give the same characters, tombstones and order in
   both execution orders *)
Theorem C19_text_edits_in_one_element_commute_partial : forall pfa pta valsa ta va pfb ptb valsb tb vb l,
  ta <> tb ->
  pos_tk_ne pfa tb -> pos_tk_ne pta tb -> pos_tk_ne pfb ta -> pos_tk_ne ptb ta ->
  known va tb = false -> known vb ta = false ->
  honest pfa pta ta va l -> honest pfb ptb tb vb l ->
  option_map shape (obind (tree_edit pfa pta valsa ta va l) (tree_edit pfb ptb valsb tb vb)) =
  option_map shape (obind (tree_edit pfb ptb valsb tb vb l) (tree_edit pfa pta valsa ta va)).
Proof. exact tree_text_edit_commute. Qed.
Print Assumptions C19_text_edits_in_one_element_commute_partial.

(* on every range the fragment covers, Tree.Edit is RGATreeSplit.edit *)
Theorem C19_tree_text_edit_is_text_edit : forall pf pt vals t v l,
  honest pf pt t v l -> tree_edit pf pt vals t v l = edit pf pt vals t v l.
Proof. exact tree_edit_is_edit. Qed.
Print Assumptions C19_tree_text_edit_is_text_edit.
