(* Props/C14.v — undo restores the previous content and redo restores the undone one.

   History.v models the two stacks as pkg/document/history.go and Document.Update /
   executeUndoRedo drive them (entries of reverse operations executed in reverse
   order, capacity 50, a new update clears the redo stack); Content.v gives the
   content edits of C14's alphabet on one client with the reverses the operations
   build.  The theorem: for every program of non-empty updates and every k within
   the capacity, k undos show exactly the content recorded k steps back, and j <= k
   redos from there the content recorded k - j steps back.  The model is replayed
   against real sessions on every run (Corr/Hist.v); tree edits and the approximate
   kinds (styles, moves, set-by-index) are decided by the engine's own oracles
   (PARTIAL). *)
From Coq Require Import List ZArith.
From YV Require Import Hist.History Hist.Content Proofs.HistProofs.
Import ListNotations.

Theorem C14_undo_redo_restore_content : forall c0 prog k j,
  valid c0 -> Forall (fun ops => ops <> []) prog ->
  k <= length prog -> k <= cap -> j <= k ->
  let h := run_program content cop Content.exec c0 prog in
  let trail := fst (prevs content cop Content.exec c0 prog []) :: snd (prevs content cop Content.exec c0 prog []) in
  exists hk hj, iter_opt content cop (do_undo content cop Content.exec) k h = Some hk /\ cur hk = nth k trail c0 /\
                iter_opt content cop (do_redo content cop Content.exec) j hk = Some hj /\ cur hj = nth (k - j) trail c0.
Proof. exact content_undo_redo. Qed.
Print Assumptions C14_undo_redo_restore_content.

(* the same for every executor whose reverse operations invert exactly on valid contents *)
Theorem C14_generic : forall (St Op : Type) (exec : St -> Op -> St * Op) (Valid : St -> Prop),
  (forall s o, Valid s -> Valid (fst (exec s o))) ->
  (forall s o s' r, Valid s -> exec s o = (s', r) -> exec s' r = (s, o)) ->
  forall s0 prog k j, Valid s0 -> Forall (fun ops => ops <> []) prog ->
  k <= length prog -> k <= cap -> j <= k ->
  let h := run_program St Op exec s0 prog in
  let trail := fst (prevs St Op exec s0 prog []) :: snd (prevs St Op exec s0 prog []) in
  exists hk hj, iter_opt St Op (do_undo St Op exec) k h = Some hk /\ cur hk = nth k trail s0 /\
                iter_opt St Op (do_redo St Op exec) j hk = Some hj /\ cur hj = nth (k - j) trail s0.
Proof. exact program_undo_redo. Qed.
Print Assumptions C14_generic.

Theorem C14_reverse_inverts : forall c o c' r, valid c -> Content.exec c o = (c', r) -> Content.exec c' r = (c, o).
Proof. exact exec_inverts. Qed.
Print Assumptions C14_reverse_inverts.

(* non-vacuity: a concrete program, two undos, one redo *)
Example C14_example :
  let prog := [[CAssign 1%Z (Some 5%Z)]; [CText 0 0 [97; 98]%Z; CInc32 2147483647%Z]; [CArrIns 0 9%Z; CAssign 1%Z None]] in
  let h := run_program content cop Content.exec (mkContent 0%Z 0%Z [] [] []) prog in
  option_map (fun h => cur h) (iter_opt content cop (do_undo content cop Content.exec) 2 h)
    = Some (mkContent 0%Z 0%Z [(1, 5)]%Z [] []).
Proof. vm_compute. reflexivity. Qed.
