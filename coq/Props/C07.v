(* Props/C07.v — each edit does locally what its index-based API says.
   Proved: counters are the mathematical sum reduced to the machine width.
   The index arithmetic of arrays (Len/Get over tombstones and dead slots) is
   tied by the rga engine: the model's linear scan [get_index]/[visible] is what
   the real treelist answers on every generated state.  Text and tree index
   arithmetic: decided by the reference-model engine c07 (no theorem). *)
From YV Require Import Crdt.ElemRHT Proofs.ERHTProofs.

Theorem C07_counter_wrap : forall (is_long : bool) c ds,
  let bits := if is_long then 64 else 32 in
  (fold_left (counter_increase is_long) ds c) mod 2 ^ bits = (fold_left Z.add ds c) mod 2 ^ bits.
Proof. exact counter_is_modular_sum. Qed.
Print Assumptions C07_counter_wrap.

Theorem C07_counter_wrap_examples :
  counter_increase false 2147483647 1 = -2147483648 /\ counter_increase true 9223372036854775807 1 = -9223372036854775808.
Proof. exact counter_wrap_example. Qed.
Print Assumptions C07_counter_wrap_examples.
