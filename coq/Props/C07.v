(* Props/C07.v — each edit does locally what its index-based API says.
   Proved: counters are the mathematical sum reduced to the machine width.
   The index arithmetic of arrays (Len/Get over tombstones and dead slots) is
   tied by the rga engine: the model's linear scan [get_index]/[visible] is what
   the real treelist answers on every generated state.
   Text: on the character-level model (compared with the real crdt.Text by the
   textrga engine, CreateRange included) a local edit at visible indices [i, j)
   is exactly a splice of the visible string, wherever tombstones sit; the
   hypothesis (distinct character ids) is an invariant of every edit.
   Tree index arithmetic and UTF-16 units: decided by the reference-model
   engines c07/c07tree (no theorem). *)
From Coq Require Import List.
From YV Require Import Crdt.ElemRHT Proofs.ERHTProofs Crdt.RGAList Crdt.ArrayKeys Proofs.ArrayWitness Crdt.TextRGA Proofs.TextProofs Proofs.TextSplice.

Theorem C07_counter_wrap : forall (is_long : bool) c ds,
  let bits := if is_long then 64 else 32 in
  (fold_left (counter_increase is_long) ds c) mod 2 ^ bits = (fold_left Z.add ds c) mod 2 ^ bits.
Proof. exact counter_is_modular_sum. Qed.
Print Assumptions C07_counter_wrap.

Theorem C07_counter_wrap_examples :
  counter_increase false 2147483647 1 = -2147483648 /\ counter_increase true 9223372036854775807 1 = -9223372036854775808.
Proof. exact counter_wrap_example. Qed.
Print Assumptions C07_counter_wrap_examples.

(* text: Edit(i, j, content) on one replica = string splice *)
Theorem C07_text_local_edit_is_splice : forall l i j vals t,
  ids_distinct l ->
  (forall c, In c l -> tafter (c_tk c) t = false) ->
  (i <= j <= length (visible l))%nat ->
  exists l', local_edit i j vals t l = Some l' /\
             visible l' = firstn i (visible l) ++ vals ++ skipn j (visible l).
Proof. exact local_edit_splices. Qed.
Print Assumptions C07_text_local_edit_is_splice.

(* its hypothesis is kept by every edit (local or remote) that brings a new ticket *)
Theorem C07_text_ids_stay_distinct : forall pf pt vals t v l l',
  ids_distinct l -> (forall c, In c l -> c_tk c <> t) ->
  edit pf pt vals t v l = Some l' -> ids_distinct l'.
Proof. exact edit_ids_distinct. Qed.
Print Assumptions C07_text_ids_stay_distinct.

(* finding P13 on both array models (and, replayed by the rga engine on every run, on the real
   crdt.Array and through Document.Update): Set on an element that was moved lands at the
   element's old slot; [20; 10] with index 1 set to 99 shows [99; 20], a splice would show [20; 99] *)
Theorem C07_array_set_after_move_refuted :
  option_map a_visible p13_moved = Some (20 :: 10 :: nil)%Z /\
  option_map a_visible p13_set = Some (99 :: 20 :: nil)%Z /\
  option_map RGAList.visible p13_slots = Some (99 :: 20 :: nil)%Z.
Proof. exact set_after_move_lands_at_the_old_slot. Qed.
Print Assumptions C07_array_set_after_move_refuted.
