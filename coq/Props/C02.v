(* Props/C02.v — catching up by snapshot equals catching up by replaying changes.
   Proved here: the structural fact the snapshot encoder and Object.DeepCopy
   rely on for object members — after any Set with a fresh ticket the table is
   well formed, in particular a member that is not tombstoned is the one linked
   under its key, so a table rebuilt by replaying Set over the stored members
   cannot resurrect a loser (this is the invariant whose violation was defect
   P12).
   For objects the whole clause is proved on the model of
   converter.fromJSONObject (decode_step: Set with the member's own position,
   tombstone restored): whatever order the encoder lists the members in (it
   ranges over a Go map), the rebuilt table has the same members, tombstones,
   positions and links and shows the same values; and a replica that loads the
   snapshot and then applies later Sets and Removes shows what the replica that kept its
   state shows.  The hypotheses (distinct ids; the linked member is the newest
   of its key; every member's key is linked) are proved for every table built
   by Sets and Removes, and checked on every table the erht engine reaches.
   PARTIAL: the byte codec itself, arrays with moved elements (finding P13),
   text, tree and the server rebuild are decided by the differential oracle of
   the hist engine (snapshot-fed clients and server rebuilds vs a replica that
   applied every change). *)
From Coq Require Import List Permutation.
From YV Require Import Crdt.ElemRHT Crdt.RGAList Proofs.ERHTProofs Proofs.RGAProofs Proofs.ERHTCommute Proofs.ERHTDecode Proofs.ERHTRemove.

Theorem C02_object_members_well_formed : forall h k id val,
  rht_wf h -> nget (nodes h) id = None ->
  (forall id' n, nget (nodes h) id' = Some n -> rn_positioned n <> id) ->
  rht_wf (rht_set h k id val id).
Proof. exact rht_set_wf. Qed.
Print Assumptions C02_object_members_well_formed.

Theorem C02_live_member_is_linked : forall h id n,
  rht_wf h -> nget (nodes h) id = Some n -> rn_removed n = None ->
  kget (by_key h) (rn_key n) = Some id.
Proof. intros h id n H. exact (wf_live h H id n). Qed.
Print Assumptions C02_live_member_is_linked.

(* an array without moved elements is determined by its position list: a
   replica rebuilt by re-inserting the positions in list order (Array.DeepCopy,
   snapshot decoding through Add) has the same slots *)
Theorem C02_plain_array_determined_by_positions : forall g,
  plain_slots g -> slots g = map (fun p => mkSlot p None (Some p)) (map sl_pos (slots g)).
Proof. exact plain_slots_determined. Qed.
Print Assumptions C02_plain_array_determined_by_positions.

(* objects: the snapshot round trip, for every order in which the members are listed *)
Theorem C02_object_snapshot_roundtrip : forall h l,
  rht_wf h -> snap_inv h -> Permutation l (nodes h) ->
  let d := rht_decode l in
  (forall id, same_node (nget (nodes d) id) (nget (nodes h) id)) /\
  (forall k w, linked h k = Some w -> exists m, linked d k = Some m /\ neq m w) /\
  (forall k, view d k = view h k).
Proof. exact decode_roundtrip. Qed.
Print Assumptions C02_object_snapshot_roundtrip.

Theorem C02_object_snapshot_order_independent : forall h l1 l2,
  rht_wf h -> snap_inv h -> Permutation l1 (nodes h) -> Permutation l2 (nodes h) ->
  (forall id, same_node (nget (nodes (rht_decode l1)) id) (nget (nodes (rht_decode l2)) id)) /\
  (forall k, view (rht_decode l1) k = view (rht_decode l2) k).
Proof. exact decode_order_independent. Qed.
Print Assumptions C02_object_snapshot_order_independent.

(* objects: snapshot, then later changes = every change one by one *)
Theorem C02_object_snapshot_then_changes : forall h l ops,
  rht_wf h -> built_inv h -> Permutation l (nodes h) ->
  all_fresh h ops -> NoDup (map sop_id ops) ->
  forall k, view (fold_left apply_sop ops (rht_decode l)) k = view (fold_left apply_sop ops h) k.
Proof. exact snapshot_then_sets. Qed.
Print Assumptions C02_object_snapshot_then_changes.

(* the hypotheses hold for every table built by Sets *)
Theorem C02_tables_built_by_sets_qualify : forall ops h,
  rht_wf h -> built_inv h -> all_fresh h ops -> NoDup (map sop_id ops) ->
  rht_wf (fold_left apply_sop ops h) /\ built_inv (fold_left apply_sop ops h).
Proof. exact sets_built. Qed.
Print Assumptions C02_tables_built_by_sets_qualify.

(* objects: snapshot, then later Sets and Removes = every change one by one *)
Theorem C02_object_snapshot_then_ops : forall h l ops,
  rht_wf h -> built_inv h -> Permutation l (nodes h) ->
  all_fresh_o h ops -> NoDup (set_ids ops) ->
  forall k, view (fold_left apply_oop ops (rht_decode l)) k = view (fold_left apply_oop ops h) k.
Proof. exact snapshot_then_ops. Qed.
Print Assumptions C02_object_snapshot_then_ops.

(* the hypotheses hold for every table built by Sets and Removes *)
Theorem C02_tables_built_by_ops_qualify : forall ops h,
  rht_wf h -> built_inv h -> all_fresh_o h ops -> NoDup (set_ids ops) ->
  rht_wf (fold_left apply_oop ops h) /\ built_inv (fold_left apply_oop ops h).
Proof. exact ops_built. Qed.
Print Assumptions C02_tables_built_by_ops_qualify.
