(* Props/C02.v — catching up by snapshot equals catching up by replaying changes.
   Proved here: the structural fact the snapshot encoder and Object.DeepCopy
   rely on for object members — after any Set with a fresh ticket the table is
   well formed, in particular a member that is not tombstoned is the one linked
   under its key, so a table rebuilt by replaying Set over the stored members
   cannot resurrect a loser (this is the invariant whose violation was defect
   P12).  PARTIAL: the snapshot codec (to_bytes/from_bytes) and the server
   rebuild are decided by the differential oracle of the hist engine (snapshot-
   fed clients and server rebuilds vs a replica that applied every change). *)
From YV Require Import Crdt.ElemRHT Crdt.RGAList Proofs.ERHTProofs Proofs.RGAProofs.

Theorem C02_object_members_well_formed : forall h k id val,
  rht_wf h -> nget (nodes h) id = None ->
  (forall id' n, nget (nodes h) id' = Some n -> rn_positioned n <> id) ->
  rht_wf (rht_set h k id val id).
Proof. exact rht_set_wf. Qed.
Print Assumptions C02_object_members_well_formed.

Theorem C02_live_member_is_linked : forall h id n,
  rht_wf h -> nget (nodes h) id = Some n -> rn_removed n = None ->
  kget (by_key h) (rn_key n) = Some id.
Proof. intros h id n H. exact (wf_live h H id n). Qed.
Print Assumptions C02_live_member_is_linked.

(* an array without moved elements is determined by its position list: a
   replica rebuilt by re-inserting the positions in list order (Array.DeepCopy,
   snapshot decoding through Add) has the same slots *)
Theorem C02_plain_array_determined_by_positions : forall g,
  plain_slots g -> slots g = map (fun p => mkSlot p None (Some p)) (map sl_pos (slots g)).
Proof. exact plain_slots_determined. Qed.
Print Assumptions C02_plain_array_determined_by_positions.
