(* Props/C20.v — property C20 (server-side caches are transparent), the
   change-range cache part.  Statements only. *)
From YV Require Import Cache.ChangeStore Proofs.ChangeStoreProofs.
From YV Require Import Cache.SnapCache Proofs.SnapCacheProofs.
From YV Require Import Cache.SnapGC Proofs.SnapGCProofs.

(* After ANY sequence of EnsureChanges (succeeding, or with a fetcher that fails on any of its
   calls: cop's CEnsureFail) / ExpandRange / ReplaceOrInsert calls and
   table growth that respects the caller obligations of mongo/client.go,
   EnsureChanges(f,t) followed by ChangesInRange(f,t) returns exactly the table
   rows of [f,t], in ascending ServerSeq order, and the fetcher was asked only
   for sequences neither covered by a fetched range nor present. *)
Theorem C20_changestore_transparent : forall tb0 ops f t,
  NoDup (map c_seq tb0) -> obligations (tb0, empty_store) ops ->
  let '(tb, s) := fold_left cstep ops (tb0, empty_store) in
  forall s' asked, ensure (tfetch tb) s f t = Some (s', asked) ->
    sorted_lt (changes_in_range s' f t) /\
    (forall c, In c (changes_in_range s' f t) <-> (In c tb /\ f <= c_seq c <= t)) /\
    (forall q, covered asked q = true ->
        f <= q <= t /\ covered (ranges s) q = false /\ has_seq (items s) q = false).
Proof. exact changestore_transparent. Qed.
Print Assumptions C20_changestore_transparent.

(* the fetcher is never asked for a covered sequence — for any store state and any fetcher *)
Theorem C20_no_refetch : forall fetch s f t s' asked,
  ensure fetch s f t = Some (s', asked) ->
  forall q, covered asked q = true ->
    f <= q <= t /\ covered (ranges s) q = false /\ has_seq (items s) q = false.
Proof. exact ensure_no_refetch. Qed.
Print Assumptions C20_no_refetch.

(* a failing fetch: only the ranges fetched before the failure are marked as fetched *)
Theorem C20_failed_fetch_marks_only_fetched : forall tb s f t k s' asked,
  ensure_failing (tfetch tb) s f t k = Some (s', asked, true) ->
  asked = firstn (S k) (calc_missing s f t) /\
  forall q, covered (ranges s') q = covered (ranges s) q || covered (firstn k (calc_missing s f t)) q.
Proof. exact failed_fetch_marks_only_fetched. Qed.
Print Assumptions C20_failed_fetch_marks_only_fetched.

(* merging fetched ranges never changes which sequences count as fetched *)
Theorem C20_merge_adjacent_exact : forall l q, covered (merge_adjacent l) q = covered l q.
Proof. exact covered_merge_adjacent. Qed.
Print Assumptions C20_merge_adjacent_exact.

(* the invariant behind the first theorem holds in every reachable state *)
Theorem C20_invariant_reachable : forall ops st, GInv st -> obligations st ops -> GInv (fold_left cstep ops st).
Proof. exact run_inv. Qed.
Print Assumptions C20_invariant_reachable.

(* RemoveChangesByActor removes exactly the actor's non-Clear presence changes *)
Theorem C20_remove_by_actor_exact : forall s a c,
  In c (items (remove_by_actor s a)) <-> In c (items s) /\ ~ (c_actor c = a /\ c_clear c = false).
Proof. exact remove_by_actor_spec. Qed.
Print Assumptions C20_remove_by_actor_exact.

(* ---- the snapshot cache (cached rebuilt documents) of packs.BuildInternalDocForServerSeq ---- *)
Local Open Scope nat_scope.

(* For every sequence of pushes, stored snapshots, cache purges/evictions and rebuilds at any
   sequence up to the head — whatever the cache and the snapshot table hold by then — every
   rebuild returned the document a replica that applied the stored changes 1..n one by one
   holds (documents, changes and their application are arbitrary). *)
Theorem C20_snapshot_cache_transparent : forall (doc chg : Type) (apply : doc -> chg -> doc) (init : doc) ops,
  let s := fold_left (sstep doc chg apply init) ops (sys0 doc chg) in
  forall n d, In (n, d) (s_out _ _ s) -> d = replay doc chg apply init (s_log _ _ s) n.
Proof. exact snapshot_cache_transparent. Qed.
Print Assumptions C20_snapshot_cache_transparent.

(* one rebuild from any correct cache entry and any correct snapshot table *)
Theorem C20_rebuild_from_cache_is_replay : forall doc chg apply init log snaps cache n r c,
  Forall (entry_ok doc chg apply init log) snaps -> cache_ok doc chg apply init log cache ->
  n <= length log ->
  build doc chg apply init log snaps cache n = (r, c) ->
  eseq r = n /\ edoc r = replay doc chg apply init log n /\ cache_ok doc chg apply init log c.
Proof. exact build_transparent. Qed.
Print Assumptions C20_rebuild_from_cache_is_replay.

(* the store is read only after the base: with a usable cache entry no snapshot lookup happens
   and the rows the entry covers are not read again *)
Theorem C20_rebuild_reads_only_after_base : forall doc chg apply init log snaps cache n,
  Forall (entry_ok doc chg apply init log) snaps -> cache_ok doc chg apply init log cache ->
  let '(lk, from, to) := plan doc init snaps cache n in
  to = n /\ 1 <= from <= S n /\
  (lk = false -> exists e, cache = Some e /\ from = S (eseq e) /\ eseq e <= n).
Proof. exact plan_range. Qed.
Print Assumptions C20_rebuild_reads_only_after_base.

(* FindClosestSnapshotInfo's contract as modelled: no stored snapshot at or below n is newer *)
Theorem C20_closest_is_greatest : forall doc (snaps : list (entry doc)) n best e,
  In e snaps -> eseq e <= n -> eseq e <= eseq (closest doc snaps n best).
Proof. exact closest_greatest. Qed.
Print Assumptions C20_closest_is_greatest.

(* the guard `serverSeq < cached.ServerSeq` is needed: without it a rebuild at an older
   sequence hands back the newer cached document *)
Theorem C20_unguarded_cache_refuted :
  exists (log : list nat) (n : nat) (cache : option (entry (list nat))),
    cache_ok (list nat) nat snoc [] log cache /\ n <= length log /\
    edoc (fst (build_unguarded (list nat) nat snoc [] log [] cache n))
      <> replay (list nat) nat snoc [] log n.
Proof. exact unguarded_refuted. Qed.
Print Assumptions C20_unguarded_cache_refuted.

(* ---- the rebuild's garbage collection over time (Cache/SnapGC.v): why only a document built
   at the head may be cached (finding P55) ---- *)

(* [hz T]: how far the minimum version vector reaches when the log has T rows; [dep j]: what the
   author of row j knew.  If the horizon only grows and every row stored after time k was made
   knowing what the minimum vector covered at time k (C03_minimum_vector_is_safe, part A, as a
   premise here), then under the repaired rule no rebuild — at any sequence, from any cache
   content reachable by pushes, evictions and rebuilds — meets a row it cannot apply. *)
Theorem C20_cache_at_head_never_blocks_a_rebuild : forall dep hz : nat -> nat,
  (forall a b, a <= b -> hz a <= hz b) ->
  (forall k j, k < j -> hz k <= dep j) ->
  forall ops, g_failed (fold_left (gstep dep hz keep_fixed) ops gsys0) = false.
Proof. exact fixed_rule_never_fails. Qed.
Print Assumptions C20_cache_at_head_never_blocks_a_rebuild.

(* the premises are satisfiable, and by the very instance that refutes the pinned tree's rule *)
Theorem C20_gc_witness_premises :
  (forall a b, a <= b -> whz a <= whz b) /\ (forall k j, k < j -> whz k <= wdep j).
Proof. exact witness_premises. Qed.
Print Assumptions C20_gc_witness_premises.

(* the pinned tree cached whatever it built: a rebuild at an older sequence leaves an entry
   collected with the present horizon, and the rebuild of the head from it fails (P55) *)
Theorem C20_cache_any_rebuild_refuted :
  g_failed (fold_left (gstep wdep whz keep_always) [GPush; GPush; GPush; GBuild 2 0; GBuild 3 0] gsys0) = true.
Proof. exact always_rule_refuted. Qed.
Print Assumptions C20_cache_any_rebuild_refuted.
