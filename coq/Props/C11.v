(* Props/C11.v — client/document lifecycle rules are enforced in every state.
   The specification (Proto/Lifecycle.v, transcribed from
   docs/design/document-client-lifecycle.md) is what the real RPC server is
   compared with, call by call, on all short and many longer call sequences;
   these are its consequences, for every state and every call. *)
From YV Require Import Proto.Lifecycle Proofs.LifeProofs.

Theorem C11_pushpull_needs_attached : forall s c d n,
  fst (lstep s (LPushPull c d n)) = true ->
  client_active s c = true /\ exists g, doc_status s c d = Some (g, DAttached).
Proof. exact pushpull_needs_attached. Qed.
Print Assumptions C11_pushpull_needs_attached.

Theorem C11_rejected_call_is_noop : forall s call, fst (lstep s call) = false -> snd (lstep s call) = s.
Proof. exact rejected_call_is_noop. Qed.
Print Assumptions C11_rejected_call_is_noop.

Theorem C11_detached_cannot_write : forall s c d n m,
  fst (lstep s (LDetach c d n)) = true ->
  fst (lstep (snd (lstep s (LDetach c d n))) (LPushPull c d m)) = false.
Proof. exact detached_cannot_write. Qed.
Print Assumptions C11_detached_cannot_write.

Theorem C11_removed_cannot_write : forall s c d n m,
  fst (lstep s (LRemove c d n)) = true ->
  fst (lstep (snd (lstep s (LRemove c d n))) (LPushPull c d m)) = false.
Proof. exact removed_cannot_write. Qed.
Print Assumptions C11_removed_cannot_write.

Theorem C11_deactivated_client_is_out : forall s c,
  fst (lstep s (LDeactivate c)) = true ->
  let s' := snd (lstep s (LDeactivate c)) in
  client_active s' c = false /\
  (forall d g st, doc_status s' c d = Some (g, st) -> attached_like st = false) /\
  (forall d n, fst (lstep s' (LPushPull c d n)) = false /\ fst (lstep s' (LDetach c d n)) = false /\
               fst (lstep s' (LRemove c d n)) = false /\ fst (lstep s' (LAttach c d n)) = false).
Proof. exact deactivated_client_is_out. Qed.
Print Assumptions C11_deactivated_client_is_out.

Theorem C11_removed_is_forever : forall calls s d g,
  is_removed s d g = true -> is_removed (lrun s calls) d g = true.
Proof. exact removed_is_forever. Qed.
Print Assumptions C11_removed_is_forever.

(* a removed document stores no further change: whatever a later sync, detach or second removal
   by any client carries, the number of changes stored for it stays what it was (finding P47,
   repaired: pushPack discards what is pushed to a removed document) *)
Theorem C11_removed_stores_no_further_change : forall s call d g,
  is_removed s d g = true ->
  match call with LAttach _ _ _ | LAttachSame _ _ _ | LAttachFail _ _ _ => False | _ => True end ->
  wget (l_writes (snd (lstep s call))) d g = wget (l_writes s) d g.
Proof. exact removed_stores_no_further_change. Qed.
Print Assumptions C11_removed_stores_no_further_change.
