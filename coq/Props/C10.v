(* Props/C10.v — compaction keeps content and stale clients are refused, not merged.
   Proved on the protocol model (epoch handling of packs.PushPull / memory
   CompactChangeInfos).  "Compacting never changes the content later attachers
   receive" rests on the rebuild-and-compare step of packs.Compact, which is
   not modelled: it is decided by the oracle of the compaction engine (fresh
   attach after compaction = server document before it). *)
From YV Require Import Proto.Server Proofs.CompactProofs.

Theorem C10_refused_when_attached : forall s row, someone_attached s = true -> compact s false row = None.
Proof. exact compact_refused_when_attached. Qed.
Print Assumptions C10_refused_when_attached.

Theorem C10_epoch_strict : forall s force row s',
  compact s force row = Some s' -> s_epoch s' = s_epoch s + 1 /\ (length (s_log s') <= 1)%nat /\ s_vvrows s' = [].
Proof. exact compact_epoch_strict. Qed.
Print Assumptions C10_epoch_strict.

Theorem C10_stale_push_adds_nothing : forall s q ci s2 r e,
  aget (s_clients s) (q_client q) = Some ci -> cd_epoch (ci_doc ci) <> s_epoch s ->
  push_pull s q = (s2, r, e) -> s_log s2 = s_log s /\ s_head s2 = s_head s.
Proof. exact stale_push_adds_nothing. Qed.
Print Assumptions C10_stale_push_adds_nothing.

Theorem C10_stale_pull_rejected : forall s q ci s2 r e,
  aget (s_clients s) (q_client q) = Some ci -> cd_epoch (ci_doc ci) <> s_epoch s ->
  q_mode q = MPushPull -> q_status q = DAttached ->
  continuity_ok (cd_cseq (ci_doc ci)) (cd_cseq (ci_doc ci) + 1) (q_changes q) = true ->
  push_pull s q = (s2, r, e) -> e = EEpochMismatch.
Proof. exact stale_pull_rejected. Qed.
Print Assumptions C10_stale_pull_rejected.

Theorem C10_stale_detach_ok : forall s q ci s2 r e,
  aget (s_clients s) (q_client q) = Some ci -> cd_epoch (ci_doc ci) <> s_epoch s ->
  ci_active ci = true -> cd_status (ci_doc ci) = DAttached ->
  q_mode q = MPushPull -> q_status q = DDetached -> q_disable_gc q = false ->
  continuity_ok (cd_cseq (ci_doc ci)) (cd_cseq (ci_doc ci) + 1) (q_changes q) = true ->
  push_pull s q = (s2, r, e) ->
  e = ENone /\ exists ci', aget (s_clients s2) (q_client q) = Some ci' /\ cd_status (ci_doc ci') = DDetached.
Proof. exact stale_detach_ok. Qed.
Print Assumptions C10_stale_detach_ok.
