(* Props/C13.v — projects are isolated and every data RPC requires the right
   credential.

   The model (Authz/Store.v, Authz/Handlers.v): stored objects are rows with a
   globally unique id and a project; a request is served by the credential gate
   followed by the handler program run on behalf of the project the credential
   resolved to.  The theorems hold for every database, request, procedure with a
   handler program, and credential; the correspondence (Corr/Authz.v, engine
   authz) compares the verdicts of [serve], of the scoped lookups and of the gate
   with the real server for every procedure the service descriptors export. *)
From Coq Require Import List NArith String.
From YV Require Import Authz.Store Authz.Handlers Proofs.AuthzProofs.
Open Scope N_scope.

(* Integrity: unless the credential is Q's own key, nothing that belongs to Q changes. *)
Theorem C13_foreign_state_untouched : forall cfg name c q d Q,
  gate cfg Yorkie name c <> Some (CtxProject Q) ->
  restrict Q (snd (serve cfg name c q d)) = restrict Q d.
Proof. exact serve_integrity. Qed.
Print Assumptions C13_foreign_state_untouched.

(* Confidentiality: the response (and the caller's own resulting state) is a function of
   the caller's own project's rows — whatever other projects hold, including objects whose
   ids the request names, the answer is the same as if they did not exist. *)
Theorem C13_response_blind_to_other_projects : forall cfg name c q d d' P,
  gate cfg Yorkie name c = Some (CtxProject P) -> wf d -> wf d' ->
  restrict P d = restrict P d' ->
  fst (serve cfg name c q d) = fst (serve cfg name c q d') /\
  restrict P (snd (serve cfg name c q d)) = restrict P (snd (serve cfg name c q d')).
Proof. exact serve_confidential. Qed.
Print Assumptions C13_response_blind_to_other_projects.

(* the well-formedness the previous theorem assumes is an invariant of serving requests *)
Theorem C13_wf_invariant : forall cfg name c q d, wf d -> wf (snd (serve cfg name c q d)).
Proof. exact serve_wf. Qed.
Print Assumptions C13_wf_invariant.

(* the two theorems above hold for every program written against the scoped primitives, not
   only for today's handlers *)
Theorem C13_any_scoped_program_integrity : forall A P (m : prog A) Q d,
  P <> Q -> restrict Q (snd (run P m d)) = restrict Q d.
Proof. exact integrity. Qed.
Print Assumptions C13_any_scoped_program_integrity.

Theorem C13_any_scoped_program_confidential : forall A P (m : prog A), ScopedFor P m ->
  forall d d', wf d -> wf d' -> restrict P d = restrict P d' ->
  fst (run P m d) = fst (run P m d') /\ restrict P (snd (run P m d)) = restrict P (snd (run P m d')).
Proof. exact confidentiality. Qed.
Print Assumptions C13_any_scoped_program_confidential.

Theorem C13_handlers_are_scoped : forall P name q m, handler P name q = Some m -> ScopedFor P m.
Proof. exact handler_scoped. Qed.
Print Assumptions C13_handlers_are_scoped.

(* a known foreign id is answered like an unknown one *)
Theorem C13_foreign_id_not_found : forall P t id d r, wf d ->
  find_raw t id d = Some r -> r_proj r <> P -> find_scoped P t id d = None.
Proof. exact foreign_lookup_is_none. Qed.
Print Assumptions C13_foreign_id_not_found.

(* identical keys in two projects are different objects *)
Theorem C13_same_key_distinct_objects : forall P Q t k d r r', wf d -> P <> Q ->
  find_key P t k d = Some r -> find_key Q t k d = Some r' -> r_id r <> r_id r'.
Proof. exact same_key_distinct. Qed.
Print Assumptions C13_same_key_distinct_objects.

(* credentials *)
Theorem C13_data_rpc_requires_api_key : forall cfg name c,
  use_default_project cfg = false -> (forall p, c <> CApiKey p) -> gate cfg Yorkie name c = None.
Proof. exact yorkie_needs_key. Qed.
Print Assumptions C13_data_rpc_requires_api_key.

Theorem C13_admin_requires_token : forall cfg name c, admin_open name = false ->
  (forall u, c <> CToken u) -> (forall p, c <> CSecretKey p) -> gate cfg Admin name c = None.
Proof. exact admin_needs_token. Qed.
Print Assumptions C13_admin_requires_token.

Theorem C13_cluster_requires_secret : forall cfg name c,
  cluster_secret_set cfg = true -> c <> CClusterSecret -> gate cfg Cluster name c = None.
Proof. exact cluster_needs_secret. Qed.
Print Assumptions C13_cluster_requires_secret.

(* the handler as it was before the repair of GetRevision does not satisfy the statement *)
Theorem C13_unchecked_global_lookup_refuted :
  exists d d', wf d /\ wf d' /\ restrict 1 d = restrict 1 d' /\
    fst (run 1 (getrevision_unchecked demo_attack) d) <> fst (run 1 (getrevision_unchecked demo_attack) d').
Proof. exact getrevision_unchecked_refuted. Qed.
Print Assumptions C13_unchecked_global_lookup_refuted.

(* listings (documents by page or query, schemas, attachment counts): exactly the asking
   project's rows of that table, whatever else the database holds *)
Theorem C13_listings_are_scoped : forall P t d r,
  In r (list_proj P t d) <-> In r d /\ r_tbl r = t /\ r_proj r = P.
Proof. exact list_proj_scoped. Qed.
Print Assumptions C13_listings_are_scoped.
