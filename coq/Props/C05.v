(* Props/C05.v — property C05, the clauses about lost responses and retries.
   (The fault-in-the-middle-of-a-request clauses are in Proofs/FaultProofs.v.) *)
From YV Require Import Proto.Server Proto.System Proofs.ProtoProofs Proofs.FaultProofs Proofs.SnapshotPull.

(* in every reachable state (lost responses and retries included) the sync of
   an honest client is accepted and acknowledges all of its pending changes *)
Theorem C05_retry_accepted : forall th actors es a k m v,
  let y := srun (init_sys th actors) es in
  aget (y_clis y) a = Some k ->
  exists s2 r, push_pull (y_srv y) (mk_request a k m v) = (s2, r, ENone) /\
               p_cp_c r = k_cp_c k + Z.of_nat (length (k_pending k)).
Proof. exact c05_sync_accepted. Qed.
Print Assumptions C05_retry_accepted.

(* each (actor, clientSeq) is stored at most once, whatever was retried *)
Theorem C05_no_duplicate_rows : forall th actors es a k,
  let y := srun (init_sys th actors) es in
  aget (y_clis y) a = Some k -> NoDup (cseqs_of a (s_log (y_srv y))).
Proof. exact c05_no_duplicate_rows. Qed.
Print Assumptions C05_no_duplicate_rows.

(* and every other client still receives every change exactly once *)
Theorem C05_delivery_unaffected_by_retries : forall th actors es a k,
  let y := srun (init_sys th actors) es in
  aget (y_clis y) a = Some k -> k_snap k = false ->
  k_recv k = not_of a (firstn (Z.to_nat (k_cp_s k)) (s_log (y_srv y))).
Proof. exact c04_exactly_once. Qed.
Print Assumptions C05_delivery_unaffected_by_retries.

(* a fault before anything was written leaves the server as it was: the retry is an ordinary request *)
Theorem C05_fault_before_push_is_harmless : forall s q, push_pull (crash_before_push s q) q = push_pull s q.
Proof. exact fault_before_push_is_harmless. Qed.
Print Assumptions C05_fault_before_push_is_harmless.

(* finding P8: a fault after the pushed changes were stored and before the client's checkpoint was;
   the retried identical request is accepted and its change is stored a second time *)
Theorem C05_crash_in_push_window_refuted :
  cseqs_of p8_actor (s_log p8_without_fault) = (1 :: nil)%Z /\
  snd (push_pull (crash_in_push_window p8_srv p8_req) p8_req) = ENone /\
  cseqs_of p8_actor (s_log p8_after_retry) = (1 :: 1 :: nil)%Z /\
  s_head p8_after_retry = 2%Z.
Proof. exact crash_in_push_window_duplicates. Qed.
Print Assumptions C05_crash_in_push_window_refuted.

(* a sync answered with a snapshot - first attempt or retry, with or without further edits made
   before the retry: the snapshot document is made of the stored log exactly, every client's
   changes once (server/packs/pushpull.go pullSnapshot after fix 56275d99) *)
Theorem C05_snapshot_applies_each_change_once : forall th actors es a k m v b kb,
  let y := srun (init_sys th actors) es in
  aget (y_clis y) a = Some k -> aget (y_clis y) b = Some kb ->
  forall s2 r, push_pull (y_srv y) (mk_request a k m v) = (s2, r, ENone) ->
  snapshot_changes (y_srv y) s2 (mk_request a k m v) = map st_ch (s_log s2) /\
  NoDup (map h_cseq (filter (fun c => N.eqb (h_actor c) b) (snapshot_changes (y_srv y) s2 (mk_request a k m v)))).
Proof. exact c05_snapshot_once. Qed.
Print Assumptions C05_snapshot_applies_each_change_once.

(* finding P45, repaired: applying every change of a resent pack put the resent change into the
   snapshot a second time *)
Theorem C05_resend_into_snapshot_refuted :
  p_snapshot (snd (fst (push_pull (y_srv p45_y) p45_req))) = true /\
  snd (push_pull (y_srv p45_y) p45_req) = ENone /\
  map (fun c => (h_actor c, h_cseq c)) (snapshot_changes_resend (y_srv p45_y) p45_s2 p45_req)
    = ((1%N, 1) :: (2%N, 1) :: (1%N, 1) :: nil)%Z /\
  map (fun c => (h_actor c, h_cseq c)) (snapshot_changes (y_srv p45_y) p45_s2 p45_req)
    = ((1%N, 1) :: (2%N, 1) :: nil)%Z.
Proof. exact resend_into_snapshot_duplicates. Qed.
Print Assumptions C05_resend_into_snapshot_refuted.
