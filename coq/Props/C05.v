(* Props/C05.v — property C05, the clauses about lost responses and retries.
   (The fault-in-the-middle-of-a-request clauses are in Proofs/FaultProofs.v.) *)
From YV Require Import Proto.Server Proto.System Proofs.ProtoProofs.

(* in every reachable state (lost responses and retries included) the sync of
   an honest client is accepted and acknowledges all of its pending changes *)
Theorem C05_retry_accepted : forall th actors es a k m v,
  let y := srun (init_sys th actors) es in
  aget (y_clis y) a = Some k ->
  exists s2 r, push_pull (y_srv y) (mk_request a k m v) = (s2, r, ENone) /\
               p_cp_c r = k_cp_c k + Z.of_nat (length (k_pending k)).
Proof. exact c05_sync_accepted. Qed.
Print Assumptions C05_retry_accepted.

(* each (actor, clientSeq) is stored at most once, whatever was retried *)
Theorem C05_no_duplicate_rows : forall th actors es a k,
  let y := srun (init_sys th actors) es in
  aget (y_clis y) a = Some k -> NoDup (cseqs_of a (s_log (y_srv y))).
Proof. exact c05_no_duplicate_rows. Qed.
Print Assumptions C05_no_duplicate_rows.

(* and every other client still receives every change exactly once *)
Theorem C05_delivery_unaffected_by_retries : forall th actors es a k,
  let y := srun (init_sys th actors) es in
  aget (y_clis y) a = Some k -> k_snap k = false ->
  k_recv k = not_of a (firstn (Z.to_nat (k_cp_s k)) (s_log (y_srv y))).
Proof. exact c04_exactly_once. Qed.
Print Assumptions C05_delivery_unaffected_by_retries.
