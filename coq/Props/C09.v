(* Props/C09.v — wire and storage encodings are lossless; hostile bytes cannot
   crash the server.

   Proved here, for all inputs: the byte codec of version vectors (round trip,
   rejection of every truncation, work bounded by the input whatever entry count
   the bytes claim), the snapshot format header, and the ticket-shape table of
   operations (whatever the decoder accepts as an operation of a change carries
   every ticket the executor dereferences); and the protobuf wire format of the
   message every operation, element and change id is made of, api.TimeTicket:
   varints as protowire reads and writes them, and the message itself (model
   compared with proto.Marshal byte for byte and with proto.Unmarshal on
   arbitrary, mutated and hand-made hostile bytes).  The protobuf conversion of
   operations, elements and snapshots (to_pb/from_pb, to_bytes/from_bytes) has
   no Coq model: its round trip is decided by the codec engine, which pushes
   every pack, change and snapshot of generated histories through each encoding
   and compares the replicas, and executes everything the decoders accept from a
   structure-aware hostile stream.  PARTIAL, stated in the manifest. *)
From Coq Require Import List ZArith.
From Coq Require String.
From YV Require Import Codec.VVBytes Codec.OpShape Codec.SnapHeader Proofs.CodecProofs Codec.PbWire Proofs.PbWireProofs.
Import ListNotations.
Open Scope Z_scope.

Theorem C09_version_vector_roundtrip : forall m,
  Forall wf_entry m -> NoDup (map fst m) -> Z.of_nat (length m) < two63 ->
  vv_decode (vv_encode m) = DecOk m.
Proof. exact vv_roundtrip_exact. Qed.
Print Assumptions C09_version_vector_roundtrip.

Theorem C09_version_vector_truncation_rejected : forall m k,
  Forall wf_entry m -> Z.of_nat (length m) < two63 ->
  (k < length (vv_encode m))%nat -> vv_decode (firstn k (vv_encode m)) = DecErr.
Proof. exact vv_truncation_rejected. Qed.
Print Assumptions C09_version_vector_truncation_rejected.

(* the decoder terminates within the fuel the input length gives, for every byte string *)
Theorem C09_version_vector_decoder_bounded : forall l, vv_decode l <> DecOutOfFuel.
Proof. exact vv_decode_total. Qed.
Print Assumptions C09_version_vector_decoder_bounded.

Theorem C09_int64_roundtrip : forall v, in_int64 v -> to_int64 (be_value (int64_bytes v)) = v.
Proof. exact int64_value. Qed.
Print Assumptions C09_int64_roundtrip.

Theorem C09_snapshot_header_roundtrip : forall zenc zdec, (forall d, zdec (zenc d) = Some d) ->
  forall d, decompress zdec (compress zenc d) = Some d.
Proof. exact snapshot_header_roundtrip. Qed.
Print Assumptions C09_snapshot_header_roundtrip.

Theorem C09_accepted_operation_has_every_ticket : forall k present,
  change_op_ok k present = true -> forall f, In f (executor_reads k) -> In f present.
Proof. exact accepted_change_op_has_all_tickets. Qed.
Print Assumptions C09_accepted_operation_has_every_ticket.

Theorem C09_missing_ticket_rejected : forall k present f,
  In f (executor_reads k) -> ~ In f present -> change_op_ok k present = false.
Proof. exact missing_ticket_rejected. Qed.
Print Assumptions C09_missing_ticket_rejected.

(* protobuf wire format: a varint of any 64-bit value reads back, whatever follows *)
Theorem C09_varint_roundtrip : forall n rest, (n < 2 ^ 64)%N -> read_varint (varint n ++ rest) = Some (n, rest).
Proof. exact read_varint_varint. Qed.
Print Assumptions C09_varint_roundtrip.

(* ... and so does the TimeTicket message: any lamport (negative ones included), delimiter, actor id *)
Theorem C09_ticket_wire_roundtrip : forall t, ticket_ok t -> decode_ticket (encode_ticket t) = Some t.
Proof. exact ticket_roundtrip. Qed.
Print Assumptions C09_ticket_wire_roundtrip.
