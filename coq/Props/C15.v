(* Props/C15.v — undo and redo propagate like ordinary edits: peers converge.

   What undo puts on the wire: for counters an increase by the negated operand,
   which commutes with every concurrent increase (theorem); for arrays an ordinary
   insert under a freshly issued ticket or an ordinary remove (C01's theorems
   apply); for object members, text and tree runs a restore under the OLD identity.
   The last is refuted on the ElementRHT model with the same witness the engines
   find on the implementation (finding P20): a concurrent operation naming the
   re-used identity makes the two delivery orders differ.  The property itself is
   decided by exhaustive small-scope execution on real Documents (engine undosync)
   and random larger histories on the real server (hist, mode C15): PARTIAL. *)
From Coq Require Import List ZArith.
From YV Require Import Base.Ticket Crdt.ElemRHT Proofs.UndoSyncProofs.
Import ListNotations.
Open Scope Z_scope.

Theorem C15_counter_undo_converges : forall is_long c a b,
  let inc := counter_increase is_long in
  inc (inc (inc c a) (- a)) b = inc (inc (inc c a) b) (- a) /\
  inc (inc (inc c a) b) (- a) = inc (inc (inc c b) a) (- a).
Proof. exact counter_undo_converges. Qed.
Print Assumptions C15_counter_undo_converges.

Theorem C15_identity_reuse_refuted : at_undoer = Some [] /\ at_peer = Some [(1%N, 1)].
Proof. exact identity_reuse_diverges. Qed.
Print Assumptions C15_identity_reuse_refuted.

(* finding P44 (repaired): a Remove that declined to execute on the undoer has no target on a peer
   that purged the loser; it must not travel *)
Theorem C15_skipped_remove_fails_on_purged_peer :
  rht_visible p44_peer = [(2%N, 96)] /\
  (exists h, p44_remove p44_peer = Some h /\ rht_visible h = [(2%N, 96)]) /\
  (exists h, p44_peer_after_gc = Some h /\ rht_visible h = [(2%N, 96)] /\ p44_remove h = None).
Proof. exact skipped_remove_fails_on_purged_peer. Qed.
Print Assumptions C15_skipped_remove_fails_on_purged_peer.
