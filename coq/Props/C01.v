(* Props/C01.v — replicas converge.  What is proved, and what is not:
   - the generic theorem: if concurrent operations commute on reachable
     states, any two causal delivery orders of the same operations end in the
     same state (so the result does not depend on who edited or synced first);
   - the commutation premises for counters (full) and for array inserts on
     lists without moved elements (full for that fragment);
   - object members: any two delivery orders of the same batch of concurrent
     Sets and Removes give the same link (hence the same value) under every key;
   - text: on the character-level model of RGATreeSplit.edit (compared with the
     real crdt.Text after every execution) an honest edit is "tombstone the known
     characters of the range, then insert with the skip rule"; honesty survives
     the execution of concurrent edits; two concurrent edits commute: the same
     characters in the same order, the same ones removed.  (The tombstone TIME of
     a character two concurrent edits both delete can depend on the order: see
     C01_text_tombstone_time_depends_on_order.)
   - that the server's delivery discipline is a per-client exactly-once,
     in-order stream (Props/C04.v), i.e. every replica applies the same set.
     Any number of pairwise concurrent honest edits made on a common text give
     the same text in every execution order (C01_text_batch_converges).
     Styles (Text.Style / RemoveStyle, model Crdt/TextStyle.v, engine textsty):
     an honest style operation is a scan over the range; two concurrent style
     operations leave observably the same attribute table on every character; a
     style operation and a concurrent edit agree on every character that is still
     visible.
   - arrays with moves: on the position-list model (Crdt/ArrayKeys.v, run in
     lockstep with the slot model and the implementation on every recorded case)
     two concurrent operations out of insert, move (same element or not), delete
     commute, and any number of them converge in every execution order.  Anchors
     are position identities, as the JSON layer passes them; set-by-index is
     excluded (finding P13 lives there).
   PARTIAL: array set-by-index and tree are not proved; for those C01 is decided by the
   differential structure engines (model = code) plus the convergence oracle on
   real multi-client histories. *)
From Coq Require Import List Permutation.
From YV Require Import Crdt.RGAList Crdt.ElemRHT Proofs.SEC Proofs.RGAProofs Proofs.ERHTProofs Proofs.ERHTCommute Proofs.ERHTDecode Proofs.ERHTRemove Proofs.RGACommuteGen Crdt.TextRGA Proofs.TextProofs Proofs.TextBatch Crdt.RHT Crdt.TextStyle Proofs.RHTProofs Proofs.TextSplice Proofs.TextStyleProofs Crdt.ArrayKeys Proofs.ArrayProofs.

Theorem C01_convergence_from_commutation :
  forall (S O : Type) (apply : S -> O -> option S) (hb : O -> O -> Prop) (Inv : S -> Prop),
  (forall s o s', Inv s -> apply s o = Some s' -> Inv s') ->
  (forall s a b, Inv s -> conc O hb a b ->
     match apply s a, apply s b with
     | Some sa, Some sb => match apply sa b, apply sb a with
                           | Some x, Some y => x = y | None, None => True | _, _ => False end
     | Some sa, None => apply sa b = None
     | None, Some sb => apply sb a = None
     | None, None => True
     end) ->
  forall l1 l2 s, Inv s -> NoDup l1 -> Permutation l1 l2 -> causal O hb l1 -> causal O hb l2 ->
    run S O apply s l1 = run S O apply s l2.
Proof. exact sec. Qed.
Print Assumptions C01_convergence_from_commutation.

(* counters: any two delivery orders of the same increases give the same value *)
Theorem C01_counter_converges : forall (is_long : bool) (l1 l2 : list Z) (c : Z),
  Permutation l1 l2 ->
  fold_left (counter_increase is_long) l1 c = fold_left (counter_increase is_long) l2 c.
Proof.
  intros is_long l1 l2 c H. revert c. induction H; intros c; cbn [fold_left]; auto.
  - now rewrite counter_increase_commute.
  - now rewrite IHPermutation1.
Qed.
Print Assumptions C01_counter_converges.

(* arrays: two concurrent inserts (neither anchored on the other's new
   element) commute — same position list, same visible content *)
Theorem C01_array_insert_commute : forall g p1 id1 v1 p2 id2 v2,
  plain_slots g -> In p1 (pos_list g) -> In p2 (pos_list g) ->
  id1 <> id2 -> ~ In id1 (pos_list g) -> ~ In id2 (pos_list g) ->
  exists g12 g21,
    bind (RGAList.insert_after g p1 id1 v1 id1) (fun h => RGAList.insert_after h p2 id2 v2 id2) = Some g12 /\
    bind (RGAList.insert_after g p2 id2 v2 id2) (fun h => RGAList.insert_after h p1 id1 v1 id1) = Some g21 /\
    slots g12 = slots g21 /\ RGAList.visible g12 = RGAList.visible g21 /\ plain_slots g12.
Proof. exact rga_insert_commute. Qed.
Print Assumptions C01_array_insert_commute.

(* object members: two concurrent Sets commute, key by key *)
Theorem C01_object_sets_commute : forall h ka a va kb b vb,
  rht_wf h -> fresh h a -> fresh h b -> a <> b ->
  forall k, view (pset (pset h ka a va) kb b vb) k = view (pset (pset h kb b vb) ka a va) k.
Proof. exact set_set_commute. Qed.
Print Assumptions C01_object_sets_commute.

(* object members: any two delivery orders of the same concurrent Sets converge *)
Theorem C01_object_sets_converge : forall h l1 l2,
  rht_wf h -> all_fresh h l1 -> NoDup (map sop_id l1) -> Permutation l1 l2 ->
  forall k, view (fold_left apply_sop l1 h) k = view (fold_left apply_sop l2 h) k.
Proof. exact sets_converge. Qed.
Print Assumptions C01_object_sets_converge.

(* object members: a batch of concurrent Sets and Removes, any two delivery orders *)
Theorem C01_object_batch_converges : forall h l1 l2,
  rht_wf h -> all_fresh_o h l1 -> batch_ok l1 -> Permutation l1 l2 ->
  forall k, linked (fold_left apply_oop l1 h) k = linked (fold_left apply_oop l2 h) k.
Proof. exact ERHTRemove.batch_converges. Qed.
Print Assumptions C01_object_batch_converges.

(* text: what an honest edit does *)
Theorem C01_text_edit_is_delete_then_insert : forall pf pt vals t v l,
  honest pf pt t v l -> edit pf pt vals t v l = hedit pf pt vals t v l.
Proof. exact edit_is_hedit. Qed.
Print Assumptions C01_text_edit_is_delete_then_insert.

(* text: an edit stays honest while a concurrent edit is executed *)
Theorem C01_text_honesty_preserved : forall pfa pta ta va pfb ptb valsb tb vb l lb,
  honest pfa pta ta va l -> hedit pfb ptb valsb tb vb l = Some lb ->
  pos_tk_ne pfa tb -> pos_tk_ne pta tb -> known va tb = false ->
  honest pfa pta ta va lb.
Proof. exact honest_preserved. Qed.
Print Assumptions C01_text_honesty_preserved.

(* text: two concurrent edits commute *)
Theorem C01_text_edits_commute : forall pfa pta valsa ta va pfb ptb valsb tb vb l,
  ta <> tb ->
  pos_tk_ne pfa tb -> pos_tk_ne pta tb -> pos_tk_ne pfb ta -> pos_tk_ne ptb ta ->
  known va tb = false -> known vb ta = false ->
  honest pfa pta ta va l -> honest pfb ptb tb vb l ->
  option_map shape (obind (edit pfa pta valsa ta va l) (edit pfb ptb valsb tb vb)) =
  option_map shape (obind (edit pfb ptb valsb tb vb l) (edit pfa pta valsa ta va)).
Proof. exact edit_commute. Qed.
Print Assumptions C01_text_edits_commute.

(* text: what does NOT converge — the time on the tombstone (content is not affected) *)
Theorem C01_text_tombstone_time_depends_on_order :
  option_map (map c_rm) (obind (ex_a ex_text) ex_b) <> option_map (map c_rm) (obind (ex_b ex_text) ex_a) /\
  option_map shape (obind (ex_a ex_text) ex_b) = option_map shape (obind (ex_b ex_text) ex_a).
Proof. exact del_time_order_dependent. Qed.
Print Assumptions C01_text_tombstone_time_depends_on_order.

(* text: any number of pairwise concurrent honest edits, any two execution orders *)
Theorem C01_text_batch_converges : forall ops1 ops2 l,
  Permutation ops1 ops2 -> good ops1 l ->
  option_map shape (run_te ops1 (Some l)) = option_map shape (run_te ops2 (Some l)) /\
  option_map TextRGA.visible (run_te ops1 (Some l)) = option_map TextRGA.visible (run_te ops2 (Some l)).
Proof. intros ops1 ops2 l HP Hg. split; [now apply TextBatch.batch_converges|now apply batch_same_text]. Qed.
Print Assumptions C01_text_batch_converges.

(* text styles: what an honest style operation does *)
Theorem C01_text_style_is_scan : forall pf pt ops t v l A,
  honest pf pt t v l -> style pf pt ops t v l A = Some (hstyle pf pt ops t v l A).
Proof. exact style_is_hstyle. Qed.
Print Assumptions C01_text_style_is_scan.

(* text styles: two concurrent style operations commute, character by character *)
Theorem C01_text_styles_commute : forall pfa pta opsa ta va pfb ptb opsb tb vb l A,
  ids_distinct l -> all_at ta opsa -> all_at tb opsb -> ta <> tb ->
  forall tk off,
  RHTProofs.req (attr_get (hstyle pfb ptb opsb tb vb l (hstyle pfa pta opsa ta va l A)) tk off)
      (attr_get (hstyle pfa pta opsa ta va l (hstyle pfb ptb opsb tb vb l A)) tk off).
Proof. exact style_style_commute. Qed.
Print Assumptions C01_text_styles_commute.

(* text styles: a style operation and a concurrent edit agree on what stays visible *)
Theorem C01_text_style_edit_commute : forall pfa pta opsa ta va pfb ptb valsb tb vb l lb A,
  ids_distinct l -> (forall c, In c l -> c_tk c <> tb) ->
  honest pfa pta ta va l -> honest pfb ptb tb vb l ->
  pos_tk_ne pfa tb -> pos_tk_ne pta tb -> known va tb = false ->
  edit pfb ptb valsb tb vb l = Some lb ->
  exists A1 A2,
    style pfa pta opsa ta va lb A = Some A1 /\ style pfa pta opsa ta va l A = Some A2 /\
    forall c, In c lb -> c_rm c = None -> attr_get A1 (c_tk c) (c_off c) = attr_get A2 (c_tk c) (c_off c).
Proof. exact style_edit_commute_live. Qed.
Print Assumptions C01_text_style_edit_commute.

(* arrays: two concurrent operations out of insert / move / delete commute *)
Theorem C01_array_ops_commute : forall a x y,
  kready (akeys a) x -> kready (akeys a) y -> compat (aents a) x y ->
  oaeq (obnd (apply_a a x) (fun a' => apply_a a' y)) (obnd (apply_a a y) (fun a' => apply_a a' x)).
Proof. exact ops_commute. Qed.
Print Assumptions C01_array_ops_commute.

(* arrays: any number of concurrent inserts, moves and deletes, any two execution orders *)
Theorem C01_array_batch_converges : forall ops1 ops2 a,
  Permutation ops1 ops2 -> goodA ops1 a ->
  oaeq (run_a ops1 (Some a)) (run_a ops2 (Some a)) /\
  option_map a_visible (run_a ops1 (Some a)) = option_map a_visible (run_a ops2 (Some a)).
Proof. intros ops1 ops2 a HP Hg. split; [now apply array_batch_converges|now apply array_batch_same_content]. Qed.
Print Assumptions C01_array_batch_converges.
