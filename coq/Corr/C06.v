(* Corr/C06.v — what a C06 correspondence case is and how it is judged. *)
From YV Require Export Base.VV Clock.ChangeID Corr.Common.

Definition cid_eqb (a b : cid) : bool :=
  Z.eqb (cseq a) (cseq b) && Z.eqb (sseq a) (sseq b) && Z.eqb (lamp a) (lamp b) &&
  N.eqb (actr a) (actr b) && vv_eqb (cvv a) (cvv b).

Definition tr_eqb (a b : bool * cid) : bool :=
  Bool.eqb (fst a) (fst b) && cid_eqb (snd a) (snd b).

Fixpoint trace_of (optout : bool) (i : cid) (es : list cev) : list (bool * cid) :=
  match es with
  | [] => []
  | e :: r =>
      let here := match e with
                  | EvLocal h => [(true, ctx_change_id i h)]
                  | EvRemote o => [(false, o)]
                  | _ => []
                  end in
      here ++ trace_of optout (fst (clock_step optout i e)) r
  end.

Inductive c06case :=
| KClock (optout : bool) (start : cid) (es : list cev) (obs_final : cid) (obs_made : list cid)
| KMinVV (vs : list vv) (obs : vv)
| KVOps (v w : vv) (omax omin : vv) (omaxlam : Z) (oaoe : bool) (t : ticket) (ocov : bool).

Definition c06check (c : c06case) : bool :=
  match c with
  | KClock optout start es obs_final obs_made =>
      let '(fin, made) := clock_run optout start es in
      cid_eqb fin obs_final && list_eqb cid_eqb made obs_made
  | KMinVV vs obs => vv_eqb (min_vv vs) obs
  | KVOps v w omax omin omaxlam oaoe t ocov =>
      vv_eqb (vmax v w) omax && vv_eqb (vmin v w) omin &&
      Z.eqb (vmaxlamport v) omaxlam && Bool.eqb (vafter_or_equal v w) oaoe &&
      Bool.eqb (vcovers v t) ocov
  end.
