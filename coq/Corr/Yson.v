(* Corr/Yson.v — judge what yson.Unmarshal made of plain strings and of Long values. *)
From Coq Require Import String ZArith.
From YV Require Export Codec.YsonText Corr.Common.

Inductive ycase :=
| YStr (input : string) (ok : bool) (output : string)     (* Unmarshal of {"k":"<input>"}; input has no quote, backslash or '(' *)
| YLong (v : Z) (ok : bool) (back : Z).                   (* Unmarshal of {"k":Long(v)}, |v| <= 2^62 *)

Definition ycheck (c : ycase) : bool :=
  match c with
  | YStr input ok output => ok && String.eqb (preprocess input) output
  | YLong v ok back => ok && Z.eqb (fl64 v) back
  end.
