From YV Require Export Crdt.ElemRHT Crdt.RHT Corr.Common.

Inductive eop :=
| ESet (k : N) (id : ticket) (val : Z) (t : ticket)
| EDelete (k : N) (t : ticket)
| EDeleteByCreated (id t : ticket)
| EPurge (id : ticket).

Definition estep (h : erht) (o : eop) : option erht :=
  match o with
  | ESet k id val t => Some (rht_set h k id val t)
  | EDelete k t => Some (rht_delete h k t)
  | EDeleteByCreated id t => rht_delete_by_created h id t
  | EPurge id => rht_purge h id
  end.

Definition kv_eqb (a b : N * Z) : bool := N.eqb (fst a) (fst b) && Z.eqb (snd a) (snd b).

Fixpoint erun (h : erht) (ops : list (eop * (bool * list (N * Z)))) : bool * erht :=
  match ops with
  | [] => (true, h)
  | (o, (oerr, ovis)) :: r =>
      match estep h o with
      | None => if oerr then erun h r else (false, h)
      | Some h' => if negb oerr && list_eqb kv_eqb (rht_visible h') ovis then erun h' r else (false, h)
      end
  end.

(* final observation: every node (id, removedAt) sorted by the harness the same way the model lists them is
   not stable; compare as a set through lookups *)
Definition node_obs_ok (h : erht) (o : ticket * option ticket) : bool :=
  match nget (nodes h) (fst o) with
  | Some n => option_eqb teqb (rn_removed n) (snd o)
  | None => false
  end.

(* a member in full: id, ((key, value), movedAt), removedAt *)
Definition fullnode := (ticket * (N * Z * option ticket * option ticket))%type.

Definition full_ok (h : erht) (o : fullnode) : bool :=
  let '(id, (kv_m, rm)) := o in
  let '(kv, mv) := kv_m in
  match nget (nodes h) id with
  | Some n => N.eqb (rn_key n) (fst kv) && Z.eqb (rn_val n) (snd kv) &&
              option_eqb teqb (rn_moved n) mv && option_eqb teqb (rn_removed n) rm
  | None => false
  end.

Definition link_ok (h : erht) (o : N * ticket) : bool :=
  match kget (by_key h) (fst o) with Some id => teqb id (snd o) | None => false end.

Definition table_ok (h : erht) (ns : list fullnode) (ls : list (N * ticket)) : bool :=
  forallb (full_ok h) ns && Nat.eqb (length (nodes h)) (length ns) &&
  forallb (link_ok h) ls && Nat.eqb (length (by_key h)) (length ls).

(* the members in the order they were encoded *)
Fixpoint pick (h : erht) (order : list ticket) : option (list rnode) :=
  match order with
  | [] => Some []
  | id :: r => match nget (nodes h) id, pick h r with Some n, Some l => Some (n :: l) | _, _ => None end
  end.

Inductive erhtcase :=
| KErht (ops : list (eop * (bool * list (N * Z)))) (obs_nodes : list (ticket * option ticket))
        (full : list fullnode) (links : list (N * ticket))
        (snapshot : option (list ticket * (list fullnode * list (N * ticket))))
| KCounter (is_long : bool) (start : Z) (deltas : list Z) (obs : Z)
| KRht (ops : list (aop * list (N * Z))).   (* each op with the live attributes (ascending key) observed after it *)

Definition erhtcheck (c : erhtcase) : bool :=
  match c with
  | KErht ops onodes full links snap =>
      let '(ok, h) := erun empty_erht ops in
      ok && forallb (node_obs_ok h) onodes && Nat.eqb (length (nodes h)) (length onodes) &&
      table_ok h full links &&
      match snap with
      | None => true
      | Some (order, (dnodes, dlinks)) =>
          match pick h order with
          | Some l => Nat.eqb (length l) (length (nodes h)) && table_ok (rht_decode l) dnodes dlinks
          | None => false
          end
      end
  | KCounter is_long start deltas obs =>
      Z.eqb (fold_left (counter_increase is_long) deltas start) obs
  | KRht ops =>
      (fix go (h : rht) (l : list (aop * list (N * Z))) : bool :=
         match l with
         | [] => true
         | (o, obs) :: r =>
             let h' := rht_apply h o in
             let live := rht_elements h' in
             (* compare as sets of (key, value): both sides have one entry per key *)
             forallb (fun kv => existsb (kv_eqb kv) obs) live && forallb (fun kv => existsb (kv_eqb kv) live) obs && go h' r
         end) [] ops
  end.
