(* Corr/RGA.v — correspondence cases for Crdt/RGAList.v against crdt.Array /
   crdt.RGATreeList driven directly. *)
From YV Require Export Crdt.RGAList Corr.Common.

Inductive rop :=
| RInsert (prev id : ticket) (val : Z) (t : ticket)
| RMove (prev id t : ticket)
| RDelete (id t : ticket)
| RSet (id newid : ticket) (val : Z) (t : ticket)
| RPurgeElem (id : ticket)
| RPurgeSlot (p : ticket).

Definition rstep (g : rga) (o : rop) : option rga :=
  match o with
  | RInsert prev id val t => insert_after g prev id val t
  | RMove prev id t => move_after g prev id t
  | RDelete id t => delete_by_created g id t
  | RSet id newid val t => set_elem g id newid val t
  | RPurgeElem id => purge_elem g id
  | RPurgeSlot p => Some (purge_slot g p)
  end.

Definition oticket_eqb := option_eqb teqb.

Definition slot_eqb (a b : slot) : bool :=
  teqb (sl_pos a) (sl_pos b) && oticket_eqb (sl_removed a) (sl_removed b) && oticket_eqb (sl_elem a) (sl_elem b).

(* observed after each op: did it fail, the visible values, the last-created
   position id; at the end: the full slot list (position id, removedAt, element id) *)
Record robs := mkRobs { ro_err : bool; ro_visible : list Z; ro_last : ticket }.

Fixpoint rrun (g : rga) (ops : list (rop * robs)) : bool * rga :=
  match ops with
  | [] => (true, g)
  | (o, ob) :: r =>
      match rstep g o with
      | None => if ro_err ob then rrun g r else (false, g)
      | Some g' =>
          if negb (ro_err ob) && list_eqb Z.eqb (visible g') (ro_visible ob) && teqb (last_created g') (ro_last ob)
          then rrun g' r else (false, g)
      end
  end.

Inductive rgacase := KRga (ops : list (rop * robs)) (obs_slots : list slot).

Definition rgacheck (c : rgacase) : bool :=
  match c with
  | KRga ops oslots =>
      let '(ok, g) := rrun empty_rga ops in
      ok && list_eqb slot_eqb (slots g) oslots
  end.
