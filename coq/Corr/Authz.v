(* Corr/Authz.v — judge the verdicts the real server gave (engine authz) with the
   model: [serve] on the abstract database of the scenario (attacker = project 1,
   victim = project 2, the same shape in both), the scoped lookups of the
   database layer, the credential gate, and the classification of procedures. *)
From Coq Require Import String.
From YV Require Export Authz.Store Authz.Handlers Corr.Common.
Open Scope N_scope.
Open Scope string_scope.

Definition tenant_rows (p : pid) : db :=
  [ mkRow TClient (p,1) p 10 true [(p,2)] [];
    mkRow TDoc (p,2) p 5 true [] [];
    mkRow TRev (p,3) p 0 true [(p,2)] [100 + p];
    mkRow TSession (p,4) p 6 true [(p,1)] [];
    mkRow TChange (p,5) p 0 true [(p,2)] [200 + p] ].

Definition scenario : db := app (tenant_rows 1) (tenant_rows 2).

Definition scen_cfg := {| use_default_project := false; default_project := 0; cluster_secret_set := true |}.

Inductive azcred := ZNone | ZGarbage | ZAttackerKey | ZAttackerToken | ZAttackerSecret | ZWrongSecret | ZClusterSecret.

Definition cred_of (z : azcred) : credv :=
  match z with
  | ZNone => CNone | ZGarbage => CGarbage | ZAttackerKey => CApiKey 1 | ZAttackerToken => CToken 1
  | ZAttackerSecret => CSecretKey 1 | ZWrongSecret => CGarbage | ZClusterSecret => CClusterSecret
  end.

Inductive azsvc := ZYorkie | ZAdmin | ZCluster.
Definition svc_of (s : azsvc) := match s with ZYorkie => Yorkie | ZAdmin => Admin | ZCluster => Cluster end.

Inductive azcase :=
| AzRpc (name : string) (fclient fdoc frev fsession : bool) (ok : bool)   (* attacker's key; which ids are the victim's *)
| AzDb (fn : string) (p owner : N) (found : bool)
| AzList (fn : string) (p : N) (foreign_rows : N)       (* a listing for project p: how many rows of other projects it returned *)
| AzGate (s : azsvc) (name : string) (c : azcred) (refused : bool)
| AzProc (s : azsvc) (name : string).

Definition who (foreign : bool) : pid := if foreign then 2 else 1.

Definition az_req (name : string) (fc fd fr fs : bool) : req :=
  mkReq (who fc, 1) (who fd, 2) (who fr, 3) (who fs, 4)
        (if String.eqb name "ActivateClient" then 10 else if String.eqb name "AttachDocument" then 5 else 6) [7].

Definition is_ok (o : outcome) : bool := match o with OResp _ => true | _ => false end.

Definition db_model (fn : string) (p owner : N) : option bool :=
  let present (o : option row) := match o with Some _ => true | None => false end in
  let fe := String.eqb fn in
  if fe "FindClientInfoByRefKey" || fe "FindClientInfoByRefKey/skipCache" then Some (present (find_scoped p TClient (owner, 1) scenario))
  else if fe "FindDocInfoByRefKey" || fe "FindDocInfosByIDs" || fe "IsDocumentAttachedOrAttaching" || fe "FindAttachedClientInfosByRefKey"
       || fe "FindRevisionInfosByPaging" then Some (present (find_scoped p TDoc (owner, 2) scenario))
  else if fe "FindDocInfoByKey" || fe "FindDocInfosByKeys" then
    (* the key of [owner]'s document: keys are 5 in both projects in the model, so
       distinguish by owner — a key that only [owner] has *)
    Some (present (find_key p TDoc 5 (tenant_rows owner)))
  else if fe "FindRevisionInfoByID" then Some (present (find_raw TRev (owner, 3) scenario))
  else None.

Definition list_model (fn : string) (p : N) : option (list row) :=
  let fe := String.eqb fn in
  if fe "FindDocInfosByPaging" || fe "FindDocInfosByQuery" then Some (list_proj p TDoc scenario)
  else if fe "FindAttachedClientCountsByDocIDs" then Some (list_proj p TClient scenario)
  else if fe "ListSchemaInfos" || fe "GetSchemaInfos" then Some (list_proj p TSchema scenario)
  else None.

Definition azcheck (c : azcase) : bool :=
  match c with
  | AzRpc name fc fd fr fs ok =>
      Bool.eqb (is_ok (fst (serve scen_cfg name (CApiKey 1) (az_req name fc fd fr fs) scenario))) ok
  | AzDb fn p owner found =>
      match db_model fn p owner with Some b => Bool.eqb b found | None => false end
  | AzList fn p nforeign =>
      match list_model fn p with
      | Some rows => N.eqb nforeign (N.of_nat (length (filter (fun r => negb (N.eqb (r_proj r) p)) rows)))
      | None => false
      end
  | AzGate s name z refused =>
      Bool.eqb (match gate scen_cfg (svc_of s) name (cred_of z) with None => true | Some _ => false end) refused
  | AzProc s name =>
      match s with ZYorkie => yorkie_modelled name | _ => true end
  end.
