(* Corr/C20.v — correspondence cases for the ChangeStore model. *)
From YV Require Export Cache.ChangeStore Corr.Common.

Inductive csop :=
| OEnsure (f t : Z) (obs_err : bool) (obs_asked : list range)
| OEnsureFail (f t : Z) (k : nat) (obs_err : bool) (obs_asked : list range)   (* the fetcher's (k+1)-th call fails *)
| OExpand (f t : Z)
| OGrow (cs : list chg)   (* new rows appear in the table *)
| OInsert (cs : list chg)
| ORemoveActor (a : N)
| OQuery (f t : Z) (obs : list chg).

Definition range_eqb (a b : range) : bool := Z.eqb (fst a) (fst b) && Z.eqb (snd a) (snd b).

(* run the ops against the model; every observation must match.  The final
   observation is the store's own state (ranges and items). *)
Fixpoint run_ops (tb : table) (s : store) (ops : list csop) : bool * store :=
  match ops with
  | [] => (true, s)
  | o :: r =>
      match o with
      | OEnsure f t oerr oasked =>
          match ensure (tfetch tb) s f t with
          | None => if oerr then run_ops tb s r else (false, s)
          | Some (s', asked) =>
              if negb oerr && list_eqb range_eqb asked oasked then run_ops tb s' r else (false, s)
          end
      | OEnsureFail f t k oerr oasked =>
          match ensure_failing (tfetch tb) s f t k with
          | None => if oerr then run_ops tb s r else (false, s)
          | Some (s', asked, failed) =>
              if Bool.eqb oerr failed && list_eqb range_eqb asked oasked then run_ops tb s' r else (false, s)
          end
      | OExpand f t => run_ops tb (expand s (f, t)) r
      | OGrow cs => run_ops (tb ++ cs) s r
      | OInsert cs => run_ops tb (replace_or_insert s cs) r
      | ORemoveActor a => run_ops tb (remove_by_actor s a) r
      | OQuery f t obs =>
          if list_eqb chg_eqb (changes_in_range s f t) obs then run_ops tb s r else (false, s)
      end
  end.

Inductive c20case :=
| KStore (tb : table) (ops : list csop) (obs_items : list chg)
| KFind (tb : table) (pr_items : list chg) (op_pre : list csop) (f t : Z) (obs : list chg) (obs_asked : list range).

Definition c20check (c : c20case) : bool :=
  match c with
  | KStore tb ops oitems =>
      let '(ok, s) := run_ops tb empty_store ops in
      ok && list_eqb chg_eqb (items s) oitems
  | KFind tb pr_items op_pre f t obs oasked =>
      let '(ok, op) := run_ops tb empty_store op_pre in
      let pr := replace_or_insert empty_store pr_items in
      let '(res, _, asked) := find_between tb pr op f t in
      ok && list_eqb chg_eqb res obs && list_eqb range_eqb asked oasked
  end.
