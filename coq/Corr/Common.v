(* Common.v — helpers for the correspondence files (cases_*.v) that the Go
   harness writes: run a boolean check over the observed cases and return the
   indices of those where model and implementation disagree. *)
From Coq Require Export List ZArith NArith Bool.
Export ListNotations.

Fixpoint mism_aux {A} (f : A -> bool) (l : list A) (i : nat) : list nat :=
  match l with
  | [] => []
  | x :: r => if f x then mism_aux f r (S i) else i :: mism_aux f r (S i)
  end.

Definition mismatches {A} (f : A -> bool) (l : list A) : list nat := mism_aux f l 0.

Fixpoint list_eqb {A} (eqb : A -> A -> bool) (a b : list A) : bool :=
  match a, b with
  | [], [] => true
  | x :: r, y :: s => eqb x y && list_eqb eqb r s
  | _, _ => false
  end.

Definition option_eqb {A} (eqb : A -> A -> bool) (a b : option A) : bool :=
  match a, b with
  | None, None => true
  | Some x, Some y => eqb x y
  | _, _ => false
  end.
