(* Corr/Hist.v — replay an observed single-client session (updates, undos, redos)
   through the history model and compare the visible content after every step. *)
From Coq Require Import ZArith.
From YV Require Export Hist.History Hist.Content Corr.Common.
Open Scope Z_scope.

Record obs := mkObs { o32 : Z; o64 : Z; oobj : list (Z * Z); oarr : list Z; otxt : list Z }.

Inductive ustep :=
| UDo (entry : list cop) (pushed : bool) (o : obs)     (* one Document.Update; pushed = it produced a change *)
| UUndo (can : bool) (o : obs)                         (* CanUndo, then Undo if it can *)
| URedo (can : bool) (o : obs).

Definition pair_eqb (a b : Z * Z) : bool := (fst a =? fst b) && (snd a =? snd b).

Definition same (c : content) (o : obs) : bool :=
  (c32 c =? o32 o) && (c64 c =? o64 o) && list_eqb pair_eqb (obj c) (oobj o) &&
  list_eqb Z.eqb (arr c) (oarr o) && list_eqb Z.eqb (txt c) (otxt o).

Definition H := hist content cop.

Fixpoint ureplay (h : H) (l : list ustep) (i : nat) : option nat :=
  match l with
  | [] => None
  | UDo entry pushed o :: r =>
      let h' := if pushed then do_update content cop exec h entry
                else mkHist (fst (run_entry content cop exec (cur h) entry [])) (undo h) (redo h) in
      if same (cur h') o then ureplay h' r (S i) else Some i
  | UUndo can o :: r =>
      match do_undo content cop exec h with
      | Some h' => if can && same (cur h') o then ureplay h' r (S i) else Some i
      | None => if negb can && same (cur h) o then ureplay h r (S i) else Some i
      end
  | URedo can o :: r =>
      match do_redo content cop exec h with
      | Some h' => if can && same (cur h') o then ureplay h' r (S i) else Some i
      | None => if negb can && same (cur h) o then ureplay h r (S i) else Some i
      end
  end.

Inductive ucase := UCase (steps : list ustep).

Definition empty_content := mkContent 0 0 [] [] [].

Definition ucheck (c : ucase) : bool :=
  match c with UCase steps => match ureplay (mkHist empty_content [] []) steps 0 with None => true | Some _ => false end end.
