From YV Require Export Crdt.TextStyle Corr.Text.

(* a step on a replica: an edit (as in Corr/Text.v) or a style operation; the observation is the
   character list with every character's attribute nodes (key, value, updatedAt, removed) *)
Inductive sop :=
| SEdit (o : top)
| SStyle (pf pt : tpos) (ops : list aop) (t : ticket) (v : option vvec).

Definition anode_eqb (a b : anode) : bool :=
  N.eqb (an_key a) (an_key b) && Z.eqb (an_val a) (an_val b) && teqb (an_at a) (an_at b) && Bool.eqb (an_removed a) (an_removed b).

Definition table_eqb (h : rht) (obs : list anode) : bool :=
  forallb (fun o => match aget_node h (an_key o) with Some n => anode_eqb n o | None => false end) obs &&
  Nat.eqb (length h) (length obs).

Definition sstep := (nat * sop * bool * list (tch * list anode))%type.
Inductive stylecase := KTextS (nrep : nat) (steps : list sstep).

Fixpoint srun (st : list (list tch * attrs)) (steps : list sstep) : bool :=
  match steps with
  | [] => true
  | (i, o, oerr, obs) :: r =>
      let '(l, A) := nth i st ([], []) in
      let res := match o with
                 | SEdit e => option_map (fun l' => (l', A)) (trun_op e l)
                 | SStyle pf pt ops t v => option_map (fun A' => (l, A')) (style pf pt ops t v l A)
                 end in
      match res with
      | Some (l', A') =>
          negb oerr && list_eqb tch_eqb l' (map fst obs) &&
          forallb (fun co => table_eqb (attr_get A' (c_tk (fst co)) (c_off (fst co))) (snd co)) obs &&
          srun (set_nth st i (l', A')) r
      | None => oerr && srun st r
      end
  end.

Definition stylecheck (c : stylecase) : bool :=
  match c with KTextS n steps => srun (repeat ([], []) n) steps end.
