(* Corr/RGA2.v — the rga engine's cases once more: the slot model (Crdt/RGAList.v) and the
   position-list model (Crdt/ArrayKeys.v) are run in lockstep on the recorded calls; after every
   call both must show what the implementation showed, and the position lists must agree. *)
From YV Require Export Crdt.ArrayKeys Corr.RGA.

Definition astep (a : arr) (o : rop) : option arr :=
  match o with
  | RInsert prev id val t => a_insert a prev id val
  | RMove prev id t => a_move a prev id t
  | RDelete id t => a_delete a id t
  | RSet id newid val t => a_set a id newid val t
  | RPurgeElem id => a_purge_elem a id
  | RPurgeSlot p => Some (a_purge_slot a p)
  end.

Fixpoint rrun2 (g : rga) (a : arr) (ops : list (rop * robs)) : bool :=
  match ops with
  | [] => true
  | (o, ob) :: r =>
      match rstep g o, astep a o with
      | None, None => ro_err ob && rrun2 g a r
      | Some g', Some a' =>
          negb (ro_err ob) && list_eqb Z.eqb (a_visible a') (ro_visible ob) &&
          list_eqb teqb (akeys a') (initial_ticket :: map sl_pos (slots g')) &&
          rrun2 g' a' r
      | _, _ => false
      end
  end.

Definition rgacheck2 (c : rgacase) : bool :=
  match c with KRga ops _ => rrun2 empty_rga empty_arr ops end.

(* what the rga engine's case files evaluate: both models against the recorded observations *)
Definition rgacheck_both (c : rgacase) : bool := rgacheck c && rgacheck2 c.
