From YV Require Export Crdt.TreeText Corr.Text.

Inductive ttop :=
| TTEdit (pf pt : tpos) (vals : list N) (t : ticket) (v : option vvec)
| TTLocal (i j : nat) (vals : list N) (t : ticket).   (* FindPos(i), FindPos(j) on this replica, then Edit *)

Definition ttrun_op (o : ttop) (l : list tch) : option (list tch) :=
  match o with
  | TTEdit pf pt vals t v => tree_edit pf pt vals t v l
  | TTLocal i j vals t => local_tree_edit i j vals t l
  end.

(* a step: the replica, the operation, whether the implementation reported an error, and the
   element's children afterwards, every text piece expanded into characters *)
Definition ttstep := (nat * ttop * bool * list tch)%type.

Inductive treetextcase := KTreeText (nrep : nat) (steps : list ttstep).

Fixpoint ttrun (st : list (list tch)) (steps : list ttstep) : bool :=
  match steps with
  | [] => true
  | (i, o, oerr, obs) :: r =>
      match ttrun_op o (nth i st []) with
      | Some l' => negb oerr && list_eqb tch_eqb l' obs && ttrun (set_nth st i l') r
      | None => oerr && ttrun st r
      end
  end.

Definition treetextcheck (c : treetextcase) : bool :=
  match c with KTreeText n steps => ttrun (repeat [] n) steps end.
