(* Corr/PubSub.v — sequential schedules of whole calls on the real pubsub.PubSub
   (Subscribe, Unsubscribe, Publish, wait for the publisher's tick) replayed on the
   model: after every call the subscriber ids of the document and what each live
   subscriber has received must agree. *)
From YV Require Export Conc.PubSub Corr.Common.

Inductive pcall :=
| PSub (s : sid)
| PUnsub (s : sid)
| PPub (e : ev)          (* by an actor that subscribes nothing *)
| PTick.                 (* long enough for every publisher to flush *)

(* observed: ClientIDs(docKey) sorted, and per subscriber ever created the events received so far, oldest first *)
Record pobs := mkPobs { p_ids : list sid; p_recv : list (sid * list ev) }.

Definition flush_all (t : st) : st := fold_left (fun t x => step t (AFlush (o_id x))) (objs t) t.

Definition pstep (t : st) (c : pcall) : st :=
  match c with
  | PSub s => step t (ASubscribe s)
  | PUnsub s => run t [AUnsubClose s; AUnsubGet s; AUnsubRemove s; AUnsubDrop]
  | PPub e => run t [APubGet e; APubEnqueue e]
  | PTick => flush_all t
  end.

Fixpoint insert_sorted (x : nat) (l : list nat) : list nat :=
  match l with [] => [x] | y :: r => if Nat.leb x y then x :: l else y :: insert_sorted x r end.
Definition sort (l : list nat) : list nat := fold_right insert_sorted [] l.

Definition obs_ok (t : st) (o : pobs) : bool :=
  list_eqb Nat.eqb (sort (client_ids t)) (p_ids o) &&
  forallb (fun p => list_eqb Nat.eqb (rev (received t (fst p))) (snd p)) (p_recv o).

Fixpoint preplay (t : st) (l : list (pcall * pobs)) (i : nat) : option nat :=
  match l with
  | [] => None
  | (c, o) :: r =>
      let t' := pstep t c in
      if obs_ok t' o then preplay t' r (S i)
      else
        (* the publisher flushes on its own every 100 ms: on a loaded machine a flush can fall
           between the call and the observation; what was observed must then be the state after
           that flush *)
        let t'' := flush_all t' in
        if obs_ok t'' o then preplay t'' r (S i) else Some i
  end.

Inductive pcase := PCase (calls : list (pcall * pobs)).

Definition pcheck (c : pcase) : bool :=
  match c with PCase calls => match preplay init calls 0 with None => true | Some _ => false end end.
