(* Corr/SnapCache.v — correspondence cases for the model of BuildInternalDocForServerSeq:
   for every rebuild the harness observed (what the snapshot cache held before, the requested
   sequence, whether FindClosestSnapshotInfo was called and what it answered, the range given
   to FindChangesBetweenServerSeqs, the head of the log as the caller knows it, what the cache holds afterwards) the model's plan must be
   the same.  Documents are abstracted to unit: contents are compared on the Go side. *)
From YV Require Export Cache.SnapCache Corr.Common.

Inductive snapcase :=
| KSnapBuild (cached : option Z) (req : Z) (lookup : option Z) (from to : Z) (head : Z) (after : option Z).

Definition snapcheck (c : snapcase) : bool :=
  match c with
  | KSnapBuild cached req lookup from to head after =>
      let cache := option_map (fun k => mkEntry (Z.to_nat k) tt) cached in
      let snaps := match lookup with Some s => [mkEntry (Z.to_nat s) tt] | None => [] end in
      let '(lk, f, t) := plan unit tt snaps cache (Z.to_nat req) in
      (0 <=? req)%Z
      && Bool.eqb lk (match lookup with Some _ => true | None => false end)
      && Z.eqb (Z.of_nat f) from && Z.eqb (Z.of_nat t) to
      && option_eqb Z.eqb after (if (head <=? req)%Z then Some req else cached)
      && match lookup with Some s => ((0 <=? s) && (s <=? req))%Z | None => true end
      && match cached with Some k => (0 <=? k)%Z | None => true end
  end.
