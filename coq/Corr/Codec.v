(* Corr/Codec.v — judge what the codec engine observed: version-vector byte strings
   with the real decoder's verdict and result, and operations reduced to their
   ticket shape with the real decoders' verdicts. *)
From Coq Require Import String.
From YV Require Export Codec.VVBytes Codec.OpShape Corr.Common.
Open Scope Z_scope.

Inductive vvcase := VvCase (bytes : list Z) (ok : bool) (entries : list (list Z * Z)).

Definition same_map (a b : vvmap) : bool :=
  forallb (fun e => match vget b (fst e) with Some w => w =? snd e | None => false end) a &&
  forallb (fun e => match vget a (fst e) with Some w => w =? snd e | None => false end) b.

Definition vvcheck (c : vvcase) : bool :=
  match c with
  | VvCase bytes ok entries =>
      match vv_decode bytes with
      | DecOk m => ok && same_map m entries
      | DecErr => negb ok
      | DecOutOfFuel => false
      end
  end.

Inductive opcase :=
| OpCase (kind : string) (present : list string) (ok : bool)          (* FromOperations on the bare operation *)
| ChgCase (kind : string) (present : list string) (ok : bool).        (* FromChanges on a change holding it *)

Definition opcheck (c : opcase) : bool :=
  match c with
  | OpCase kind present ok => match kind_of kind with Some k => Bool.eqb (op_ok k present) ok | None => negb ok end
  | ChgCase kind present ok => match kind_of kind with Some k => Bool.eqb (change_op_ok k present) ok | None => negb ok end
  end.
