(* Corr/Locks.v — the lock sequences the translator (lockscan) extracted from
   /repo's sources on this run: each must satisfy the premise of the
   deadlock-freedom theorem. *)
From Coq Require Import String.
From YV Require Export Conc.Locks Corr.Common.

Inductive lockcase := LockSeq (entry : string) (seq : list (lclass * lmode)).

Definition lockcheck (c : lockcase) : bool := match c with LockSeq _ seq => seq_ordered seq end.
