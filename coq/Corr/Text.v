From YV Require Export Crdt.TextRGA Corr.Common.

Definition tch_eqb (a b : tch) : bool :=
  teqb (c_tk a) (c_tk b) && N.eqb (c_off a) (c_off b) && N.eqb (c_val a) (c_val b) &&
  option_eqb teqb (c_rm a) (c_rm b).

Inductive top :=
| TEdit (pf pt : tpos) (vals : list N) (t : ticket) (v : option vvec)
| TLocal (i j : nat) (vals : list N) (t : ticket)    (* CreateRange(i, j) on this replica, then Edit *)
| TPurge (tk : ticket) (off len : N).               (* RGATreeSplit.Purge of the run (tk, off) of that length *)

Definition trun_op (o : top) (l : list tch) : option (list tch) :=
  match o with
  | TEdit pf pt vals t v => edit pf pt vals t v l
  | TLocal i j vals t => local_edit i j vals t l
  | TPurge tk off len => Some (purge_run tk off len l)
  end.

(* a step: the replica that executes the operation, the operation, whether the implementation
   reported an error, and the replica's characters afterwards (every run expanded, head excluded) *)
Definition tstep := (nat * top * bool * list tch)%type.

Inductive textcase := KText (nrep : nat) (steps : list tstep).

Fixpoint set_nth {A} (l : list A) (i : nat) (x : A) : list A :=
  match l, i with
  | [], _ => []
  | _ :: r, O => x :: r
  | y :: r, S j => y :: set_nth r j x
  end.

Fixpoint trun (st : list (list tch)) (steps : list tstep) : bool :=
  match steps with
  | [] => true
  | (i, o, oerr, obs) :: r =>
      match trun_op o (nth i st []) with
      | Some l' => negb oerr && list_eqb tch_eqb l' obs && trun (set_nth st i l') r
      | None => oerr && trun st r
      end
  end.

Definition textcheck (c : textcase) : bool :=
  match c with KText n steps => trun (repeat [] n) steps end.
