From YV Require Export Codec.PbWire Corr.Common.

Definition ptk_eqb (a b : ptk) : bool :=
  Z.eqb (pt_lam a) (pt_lam b) && N.eqb (pt_delim a) (pt_delim b) && list_eqb N.eqb (pt_actor a) (pt_actor b).

Inductive pbcase :=
| PbEnc (t : ptk) (bytes : list N)              (* proto.Marshal of the ticket *)
| PbDec (bytes : list N) (res : option ptk).    (* proto.Unmarshal of arbitrary bytes: the fields, or an error *)

Definition pbcheck (c : pbcase) : bool :=
  match c with
  | PbEnc t bytes => list_eqb N.eqb (encode_ticket t) bytes
  | PbDec bytes res => option_eqb ptk_eqb (decode_ticket bytes) res
  end.
