From YV Require Export Proto.Lifecycle Corr.Common.

(* observed after a call: accepted?, the caller's (active, status of d) as stored by
   the server, and the number of rows in the log of the document the call named *)
Record lobs := mkLobs { lo_ok : bool; lo_active : bool; lo_status : dstatus; lo_rows : Z }.

Definition call_target (call : lcall) : N * option N :=
  match call with
  | LActivate c => (c, None) | LDeactivate c => (c, None)
  | LAttach c d _ => (c, Some d) | LAttachSame c d _ => (c, Some d) | LPushPull c d _ => (c, Some d) | LDetach c d _ => (c, Some d) | LRemove c d _ => (c, Some d) | LAttachFail c d _ => (c, Some d)
  end.

(* after the call: did the failing attach end up attached (somebody else held the document)? *)
Definition attach_fail_succeeds (s' : lstate) (c d : N) : bool :=
  match aget (l_clients s') c with
  | Some x => match find_doc (lc_docs x) d with Some dd => dstatus_eqb (ld_status dd) DAttached | None => false end
  | None => false
  end.

Definition obs_matches (s : lstate) (call : lcall) (ok : bool) (o : lobs) : bool :=
  let '(c, od) := call_target call in
  (* a failing attach is answered with an error whether or not it left its residue *)
  Bool.eqb (match call with LAttachFail c d _ => ok && attach_fail_succeeds s c d | _ => ok end) (lo_ok o) &&
  match aget (l_clients s) c with
  | Some x =>
      Bool.eqb (lc_active x) (lo_active o) &&
      match od with
      | Some d =>
          match find_doc (lc_docs x) d with
          | Some dd => dstatus_eqb (ld_status dd) (lo_status o) && Z.eqb (wget (l_writes s) d (ld_gen dd)) (lo_rows o)
          | None => dstatus_eqb DNone (lo_status o)
          end
      | None => true
      end
  | None => negb (lo_active o)
  end.

Fixpoint lreplay (s : lstate) (l : list (lcall * lobs)) (i : nat) : option nat :=
  match l with
  | [] => None
  | (call, o) :: r =>
      let '(ok, s') := lstep s call in
      if obs_matches s' call ok o then lreplay s' r (S i) else Some i
  end.

Inductive lifecase := KLife (calls : list (lcall * lobs)).

Definition lifecheck (c : lifecase) : bool :=
  match c with KLife calls => match lreplay empty_lstate calls 0 with None => true | Some _ => false end end.

Definition lifewhere (c : lifecase) : option nat :=
  match c with KLife calls => lreplay empty_lstate calls 0 end.
