(* Corr/Proto.v — replay of observed request/response traces against Proto/Server.v *)
From YV Require Export Proto.Server Corr.Common.

Definition chdr_eqb (a b : chdr) : bool :=
  N.eqb (h_actor a) (h_actor b) && Z.eqb (h_cseq a) (h_cseq b) && Z.eqb (h_lam a) (h_lam b) &&
  vv_eqb (h_vv a) (h_vv b) && Z.eqb (h_nops a) (h_nops b) && N.eqb (h_pres a) (h_pres b).

Definition stored_eqb (a b : stored) : bool :=
  Z.eqb (st_sseq a) (st_sseq b) && chdr_eqb (st_ch a) (st_ch b).

(* what the harness saw come back *)
Inductive oresp :=
| OErr (e : perr)
| OOther                                    (* an error class outside the model: the model must also refuse *)
| OResp (cp_s cp_c : Z) (changes : list stored) (snapshot : bool) (v : option vv).

Inductive pev :=
| PActivate (a : actor)
| PAttach (q : req) (o : oresp)
| PCall (q : req) (o : oresp)
| PDeactivate (a : actor)
| PCompact (force : bool) (row : option chdr) (ok : bool).

(* on the wire a nil vector and an empty vector are the same thing *)
Definition ovv_norm (a : option vv) : vv := match a with Some v => v | None => [] end.
Definition ovv_eqb (a b : option vv) : bool := vv_eqb (ovv_norm a) (ovv_norm b).

Definition resp_matches (r : resp) (e : perr) (o : oresp) : bool :=
  match o with
  | OErr e' => perr_eqb e e'
  | OOther => negb (perr_eqb e ENone)
  | OResp cs cc chs snap v =>
      perr_eqb e ENone && Z.eqb (p_cp_s r) cs && Z.eqb (p_cp_c r) cc &&
      list_eqb stored_eqb (p_changes r) chs && Bool.eqb (p_snapshot r) snap &&
      (snap || ovv_eqb (p_vv r) v)
  end.

(* clients.Deactivate: for an attached (or attaching) document the server itself
   performs cluster DetachDocument: a push-only PushPull with status Detached
   carrying one presence-clear change (clientSeq = stored clientSeq + 1, no
   clocks) and a nil version vector; then the client is marked deactivated. *)
Definition deactivate (s : srv) (a : actor) : srv :=
  match aget (s_clients s) a with
  | Some ci =>
      let d := ci_doc ci in
      let s1 :=
        if dstatus_eqb (cd_status d) DAttached || dstatus_eqb (cd_status d) DAttaching then
          let q := mkReq a (cd_sseq d) (cd_cseq d) [mkCh a (cd_cseq d + 1) 0 [] 0 2%N] [] false
                         MPushOnly DDetached false in
          let '(s2, _, er) := push_pull s q in
          match er with ENone => s2 | _ => s end
        else s in
      match aget (s_clients s1) a with
      | Some ci1 => mkSrv (s_log s1) (s_head s1) (s_epoch s1) (s_removed s1) (s_nopres s1)
                          (aset (s_clients s1) a (mkCI false (ci_doc ci1))) (s_vvrows s1) (s_threshold s1)
      | None => s1
      end
  | None => s
  end.

Fixpoint replay (s : srv) (evs : list pev) (i : nat) : option nat * srv :=
  match evs with
  | [] => (None, s)
  | e :: r =>
      match e with
      | PActivate a => replay (activate s a) r (S i)
      | PDeactivate a => replay (deactivate s a) r (S i)
      | PAttach q o =>
          match mark_attached s (q_client q) with
          | None => match o with
                    | OResp _ _ _ _ _ => (Some i, s)
                    | _ => replay s r (S i)
                    end
          | Some s1 =>
              let '(s2, rp, er) := push_pull s1 q in
              if resp_matches rp er o
              then replay (match er with ENone => s2 | _ => s end) r (S i)
              else (Some i, s)
          end
      | PCompact force row ok =>
          match compact s force row with
          | Some s' => if ok then replay s' r (S i) else (Some i, s)
          | None => if ok then (Some i, s) else replay s r (S i)
          end
      | PCall q o =>
          let '(s2, rp, er) := push_pull s q in
          if resp_matches rp er o then replay s2 r (S i) else (Some i, s)
      end
  end.

Inductive protocase :=
| KProto (nopres : bool) (threshold : Z) (evs : list pev) (obs_log : list stored).

Definition protocheck (c : protocase) : bool :=
  match c with
  | KProto np th evs olog =>
      match replay (empty_srv np th) evs 0 with
      | (None, s) => list_eqb stored_eqb (s_log s) olog
      | (Some _, _) => false
      end
  end.

(* diagnostic: index of the first event the model disagrees on *)
Definition protowhere (c : protocase) : option nat :=
  match c with KProto np th evs _ => fst (replay (empty_srv np th) evs 0) end.
