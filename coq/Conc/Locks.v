(* Locks.v — named reader/writer locks with writer preference (Go's sync.RWMutex
   behind pkg/locker: a waiting writer stops new readers), threads that acquire
   a fixed sequence of locks and release everything when they are done (the RPC
   handlers release with defer), and the lock classes of the sync pipeline.

   A lock is (class, key): doc, pull, attachment, push of some document / client.
   Try-locks never wait and are not part of a sequence here. *)
From Coq Require Import List Arith Bool.
Import ListNotations.

Inductive mode := MRead | MWrite.

Definition lock := (nat * nat)%type.            (* class rank, key *)
Definition lock_eqb (a b : lock) : bool := Nat.eqb (fst a) (fst b) && Nat.eqb (snd a) (snd b).

Record thread := mkThread { held : list (lock * mode); todo : list (lock * mode) }.

Definition state := list thread.

Definition conflicts (m1 m2 : mode) : bool :=
  match m1, m2 with MRead, MRead => false | _, _ => true end.

Definition holds_conflicting (t : thread) (l : lock) (m : mode) : bool :=
  existsb (fun h => lock_eqb (fst h) l && conflicts (snd h) m) (held t).

Definition waits_to_write (t : thread) (l : lock) : bool :=
  match todo t with
  | (l', MWrite) :: _ => lock_eqb l' l
  | _ => false
  end.

(* thread number i may take its next lock: nobody else holds it in a conflicting mode and,
   for a read, no other thread is waiting to write it *)
Fixpoint others {A} (l : list A) (i : nat) : list A :=
  match l, i with
  | [], _ => []
  | _ :: r, O => r
  | x :: r, S j => x :: others r j
  end.

Definition can_acquire (s : state) (i : nat) (l : lock) (m : mode) : bool :=
  forallb (fun t => negb (holds_conflicting t l m)) (others s i) &&
  match m with
  | MRead => forallb (fun t => negb (waits_to_write t l)) (others s i)
  | MWrite => true
  end.

Definition enabled (s : state) (i : nat) : bool :=
  match nth_error s i with
  | None => false
  | Some t =>
      match todo t with
      | [] => true                                   (* finished: returns and releases everything *)
      | (l, m) :: _ => can_acquire s i l m
      end
  end.

Fixpoint set_nth {A} (l : list A) (i : nat) (x : A) : list A :=
  match l, i with
  | [], _ => []
  | _ :: r, O => x :: r
  | y :: r, S j => y :: set_nth r j x
  end.

(* one step of thread i (if enabled): take the next lock, or return *)
Definition step (s : state) (i : nat) : state :=
  match nth_error s i with
  | None => s
  | Some t =>
      match todo t with
      | [] => others s i
      | (l, m) :: rest => if can_acquire s i l m then set_nth s i (mkThread ((l, m) :: held t) rest) else s
      end
  end.

(* a thread follows the lock order: class ranks strictly increase along the locks it holds
   (oldest first) followed by the locks it still wants *)
Fixpoint increasing (l : list nat) : bool :=
  match l with
  | [] => true
  | a :: r => match r with [] => true | b :: _ => Nat.ltb a b end && increasing r
  end.

Definition ranks (t : thread) : list nat := map (fun h => fst (fst h)) (rev (held t) ++ todo t).

Definition ordered_thread (t : thread) : bool := increasing (ranks t).

Definition ordered (s : state) : bool := forallb ordered_thread s.

(* ---- the lock classes of the pipeline, in the documented order ---- *)
Inductive lclass := CDoc | CPull | CAttach | CPush | CSnapshot | CWatch | CTask.

Definition rank (c : lclass) : nat :=
  match c with CDoc => 1 | CPull => 2 | CAttach => 3 | CPush => 4 | CSnapshot => 5 | CWatch => 6 | CTask => 0 end.

Inductive lmode := LW | LR | LT.          (* Locker, LockerWithRLock, LockerWithTryLock *)

(* a handler's acquisition sequence, as the translator extracts it, follows the order if the ranks
   of its blocking acquisitions strictly increase (try-locks never wait) *)
Definition blocking (seq : list (lclass * lmode)) : list nat :=
  map (fun p => rank (fst p)) (filter (fun p => match snd p with LT => false | _ => true end) seq).

Definition seq_ordered (seq : list (lclass * lmode)) : bool := increasing (blocking seq).
