(* PubSub.v — the document pub/sub of server/backend/pubsub at the granularity of
   its critical sections.

   One document key.  [entry] is docSubsMap[docKey]; every Subscriptions object
   ever created stays in [objs] (a thread may still hold a pointer to one that
   has left the map).  Actions:
     ASubscribe s        the Upsert callback of PubSub.Subscribe (under the shard lock)
     AUnsubClose s       sub.Close()
     AUnsubGet s         docSubsMap.Get in Unsubscribe: remember the object found
     AUnsubRemove s      subs.Delete(sub.ID()) on the remembered object
     AUnsubDrop          the docSubsMap.Delete callback: if the entry has no member,
                         close its publisher (final flush) and remove the entry
     APubGet e           docSubsMap.Get in Publish: remember the object found
     APubEnqueue e       BatchPublisher.Publish on the remembered object
     AFlush o            one tick of the publisher of object o (nothing once closed)
     AStall s            the consumer of s stalled for maxFailures publishes: channel closed
   Delivery to a live subscription always succeeds in the model (the 100 ms
   timeout and the capacity-1 channel are wall-clock matters: a consumer that does
   not keep up is AStall). *)
From Coq Require Import List Arith Bool.
Import ListNotations.

Definition sid := nat.
Definition oid := nat.
Definition ev := nat.

Record sobj := mkObj { o_id : oid; o_members : list sid; o_open : bool; o_queue : list ev }.

Record st := mkSt {
  entry : option oid;
  objs : list sobj;
  closed : list sid;                    (* subscriptions whose events channel is closed *)
  got : list (sid * ev);                (* events delivered, newest first *)
  pend_pub : list (ev * option oid);    (* Publish calls between Get and enqueue *)
  pend_unsub : list (sid * option oid); (* Unsubscribe calls between Get and Delete *)
  next : oid
}.

Definition init : st := mkSt None [] [] [] [] [] 0.

Inductive act :=
| ASubscribe (s : sid) | AUnsubClose (s : sid) | AUnsubGet (s : sid) | AUnsubRemove (s : sid) | AUnsubDrop
| APubGet (e : ev) | APubEnqueue (e : ev) | AFlush (o : oid) | AStall (s : sid).

Definition mem (x : nat) (l : list nat) : bool := existsb (Nat.eqb x) l.
Definition remove (x : nat) (l : list nat) : list nat := filter (fun y => negb (Nat.eqb x y)) l.

Fixpoint find_obj (l : list sobj) (o : oid) : option sobj :=
  match l with [] => None | x :: r => if Nat.eqb (o_id x) o then Some x else find_obj r o end.

Fixpoint upd_obj (l : list sobj) (o : oid) (f : sobj -> sobj) : list sobj :=
  match l with [] => [] | x :: r => if Nat.eqb (o_id x) o then f x :: r else x :: upd_obj r o f end.

Fixpoint take_pend {A} (l : list (nat * A)) (k : nat) : option (A * list (nat * A)) :=
  match l with
  | [] => None
  | (k', a) :: r => if Nat.eqb k' k then Some (a, r)
                    else match take_pend r k with Some (a', r') => Some (a', (k', a) :: r') | None => None end
  end.

(* deliver the queue of an object to its live members; dead members are removed *)
Definition flush_obj (x : sobj) (cl : list sid) (g : list (sid * ev)) : sobj * list (sid * ev) :=
  let live := filter (fun s => negb (mem s cl)) (o_members x) in
  (mkObj (o_id x) live (o_open x) [],
   flat_map (fun s => map (fun e => (s, e)) (rev (o_queue x))) live ++ g).   (* got is newest first *)

Definition step (t : st) (a : act) : st :=
  match a with
  | ASubscribe s =>
      match entry t with
      | Some o => mkSt (entry t) (upd_obj (objs t) o (fun x => mkObj (o_id x) (s :: o_members x) (o_open x) (o_queue x)))
                       (closed t) (got t) (pend_pub t) (pend_unsub t) (next t)
      | None => mkSt (Some (next t)) (mkObj (next t) [s] true [] :: objs t) (closed t) (got t) (pend_pub t) (pend_unsub t) (S (next t))
      end
  | AUnsubClose s => mkSt (entry t) (objs t) (s :: closed t) (got t) (pend_pub t) (pend_unsub t) (next t)
  | AUnsubGet s => mkSt (entry t) (objs t) (closed t) (got t) (pend_pub t) ((s, entry t) :: pend_unsub t) (next t)
  | AUnsubRemove s =>
      match take_pend (pend_unsub t) s with
      | Some (Some o, rest) =>
          mkSt (entry t) (upd_obj (objs t) o (fun x => mkObj (o_id x) (remove s (o_members x)) (o_open x) (o_queue x)))
               (closed t) (got t) (pend_pub t) rest (next t)
      | Some (None, rest) => mkSt (entry t) (objs t) (closed t) (got t) (pend_pub t) rest (next t)
      | None => t
      end
  | AUnsubDrop =>
      match entry t with
      | Some o =>
          match find_obj (objs t) o with
          | Some x =>
              match o_members x with
              | [] => (* subs.Close(): the publisher flushes what is queued (to nobody) and stops *)
                      mkSt None (upd_obj (objs t) o (fun x => mkObj (o_id x) [] false [])) (closed t) (got t) (pend_pub t) (pend_unsub t) (next t)
              | _ => t
              end
          | None => t
          end
      | None => t
      end
  | APubGet e => mkSt (entry t) (objs t) (closed t) (got t) ((e, entry t) :: pend_pub t) (pend_unsub t) (next t)
  | APubEnqueue e =>
      match take_pend (pend_pub t) e with
      | Some (Some o, rest) =>
          mkSt (entry t) (upd_obj (objs t) o (fun x => mkObj (o_id x) (o_members x) (o_open x) (o_queue x ++ [e])))
               (closed t) (got t) rest (pend_unsub t) (next t)
      | Some (None, rest) => mkSt (entry t) (objs t) (closed t) (got t) rest (pend_unsub t) (next t)
      | None => t
      end
  | AFlush o =>
      match find_obj (objs t) o with
      | Some x =>
          if o_open x then
            mkSt (entry t) (upd_obj (objs t) o (fun y => fst (flush_obj y (closed t) (got t)))) (closed t)
                 (snd (flush_obj x (closed t) (got t))) (pend_pub t) (pend_unsub t) (next t)
          else t
      | None => t
      end
  | AStall s => mkSt (entry t) (objs t) (s :: closed t) (got t) (pend_pub t) (pend_unsub t) (next t)
  end.

Definition run (t : st) (tr : list act) : st := fold_left step tr t.

(* what PubSub.ClientIDs(docKey) returns *)
Definition client_ids (t : st) : list sid :=
  match entry t with
  | Some o => match find_obj (objs t) o with Some x => o_members x | None => [] end
  | None => []
  end.

Definition received (t : st) (s : sid) : list ev := map snd (filter (fun p => Nat.eqb (fst p) s) (got t)).
