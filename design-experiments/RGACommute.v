(* Design experiment (NOT part of the framework, not referenced by MANIFEST):
   does the RGA skip-rule insertion commute for two concurrent inserts with
   pre-existing anchors, with no invariant on the list?  Tickets are
   abstracted to Z (any strict total order). *)
From Coq Require Import List ZArith Lia Bool.
Import ListNotations.
Open Scope Z_scope.

(* longest prefix of elements > t, and the rest *)
Fixpoint skip (t : Z) (l : list Z) : list Z * list Z :=
  match l with
  | x :: r => if x >? t then let '(a, b) := skip t r in (x :: a, b) else ([], l)
  | [] => ([], [])
  end.

Definition place (t : Z) (l : list Z) : list Z :=
  let '(a, b) := skip t l in a ++ t :: b.

Fixpoint insert_after (anchor t : Z) (l : list Z) : option (list Z) :=
  match l with
  | [] => None
  | x :: r => if x =? anchor then Some (x :: place t r)
              else option_map (cons x) (insert_after anchor t r)
  end.

Lemma skip_app t l : let '(a,b) := skip t l in l = a ++ b.
Proof.
  induction l as [|x r IH]; cbn; [reflexivity|].
  destruct (x >? t); [|reflexivity].
  destruct (skip t r) as [a b]. cbn. now rewrite IH.
Qed.

(* place is "insert t before the first element not greater than t" *)
Lemma place_cons_gt t x r : x > t -> place t (x :: r) = x :: place t r.
Proof.
  intros H. unfold place. cbn. destruct (Z.gtb_spec x t); [|lia].
  destruct (skip t r). reflexivity.
Qed.
Lemma place_cons_le t x r : x <= t -> place t (x :: r) = t :: x :: r.
Proof.
  intros H. unfold place. cbn. destruct (Z.gtb_spec x t); [lia|]. reflexivity.
Qed.
Lemma place_nil t : place t [] = [t].
Proof. reflexivity. Qed.

(* same anchor: two placements commute *)
Lemma place_place t1 t2 l : t1 <> t2 -> place t1 (place t2 l) = place t2 (place t1 l).
Proof.
  intros Hne. induction l as [|x r IH].
  - rewrite !place_nil.
    destruct (Z.lt_ge_cases t1 t2).
    + rewrite (place_cons_gt t1 t2) by lia. rewrite place_nil.
      rewrite (place_cons_le t2 t1) by lia. reflexivity.
    + rewrite (place_cons_le t1 t2) by lia.
      rewrite (place_cons_gt t2 t1) by lia. rewrite place_nil. reflexivity.
  - destruct (Z.gtb_spec x t1) as [H1|H1]; destruct (Z.gtb_spec x t2) as [H2|H2].
    + rewrite (place_cons_gt t2 x) by lia. rewrite (place_cons_gt t1 x) by lia.
      rewrite (place_cons_gt t1 x) by lia. rewrite (place_cons_gt t2 x) by lia.
      now rewrite IH.
    + (* x > t1, x <= t2 *)
      rewrite (place_cons_le t2 x) by lia. rewrite (place_cons_gt t1 x r) by lia.
      rewrite (place_cons_gt t1 t2) by lia. rewrite (place_cons_gt t1 x) by lia.
      rewrite (place_cons_le t2 x) by lia. reflexivity.
    + rewrite (place_cons_gt t2 x) by lia. rewrite (place_cons_le t1 x r) by lia.
      rewrite (place_cons_le t1 x) by lia.
      rewrite (place_cons_gt t2 t1) by lia. rewrite (place_cons_gt t2 x) by lia. reflexivity.
    + rewrite (place_cons_le t2 x) by lia. rewrite (place_cons_le t1 x r) by lia.
      destruct (Z.lt_ge_cases t1 t2).
      * rewrite (place_cons_gt t1 t2) by lia. rewrite (place_cons_le t1 x) by lia.
        rewrite (place_cons_le t2 t1) by lia. reflexivity.
      * rewrite (place_cons_le t1 t2) by lia.
        rewrite (place_cons_gt t2 t1) by lia. rewrite (place_cons_le t2 x) by lia. reflexivity.
Qed.

(* placing t1 at the front commutes with inserting t2 after an anchor further right *)
Lemma place_insert t1 t2 a l :
  t1 <> t2 -> a <> t1 ->
  insert_after a t2 (place t1 l) = option_map (place t1) (insert_after a t2 l).
Proof.
  intros Hne Ha. induction l as [|x r IH].
  - cbn. destruct (Z.eqb_spec t1 a); [congruence|]. reflexivity.
  - cbn [insert_after]. destruct (Z.eqb_spec x a) as [->|Hxa].
    + cbn [option_map].
      destruct (Z.gtb_spec a t1) as [Hg|Hg].
      * rewrite (place_cons_gt t1 a r) by lia. cbn [insert_after]. rewrite Z.eqb_refl.
        rewrite (place_cons_gt t1 a) by lia. now rewrite (place_place t1 t2) by assumption.
      * rewrite (place_cons_le t1 a r) by lia. rewrite (place_cons_le t1 a) by lia.
        cbn [insert_after]. destruct (Z.eqb_spec t1 a); [congruence|].
        rewrite Z.eqb_refl. reflexivity.
    + destruct (Z.gtb_spec x t1) as [Hg|Hg].
      * rewrite (place_cons_gt t1 x r) by lia. cbn [insert_after].
        destruct (Z.eqb_spec x a); [congruence|]. rewrite IH.
        destruct (insert_after a t2 r) as [r2|]; cbn; [|reflexivity].
        now rewrite (place_cons_gt t1 x) by lia.
      * rewrite (place_cons_le t1 x r) by lia. cbn [insert_after].
        destruct (Z.eqb_spec t1 a); [congruence|].
        destruct (Z.eqb_spec x a); [congruence|].
        destruct (insert_after a t2 r) as [r2|]; cbn; [|reflexivity].
        now rewrite (place_cons_le t1 x) by lia.
Qed.

Definition bind {A B} (o : option A) (f : A -> option B) : option B :=
  match o with Some x => f x | None => None end.

(* The commutation lemma: two inserts whose anchors are not each other's new
   node (i.e. concurrent, or at least not causally chained) commute.
   No invariant on l is needed. *)
Theorem insert_commute a1 t1 a2 t2 l :
  t1 <> t2 -> a1 <> t2 -> a2 <> t1 ->
  bind (insert_after a1 t1 l) (insert_after a2 t2) =
  bind (insert_after a2 t2 l) (insert_after a1 t1).
Proof.
  intros Hne H12 H21. induction l as [|x r IH]; [reflexivity|].
  cbn [insert_after].
  destruct (Z.eqb_spec x a1) as [E1|N1]; destruct (Z.eqb_spec x a2) as [E2|N2]; subst; cbn [bind insert_after].
  - rewrite (Z.eqb_refl a2). now rewrite (place_place t1 t2) by assumption.
  - destruct (Z.eqb_spec a1 a2); [congruence|].
    rewrite place_insert by congruence.
    destruct (insert_after a2 t2 r) as [r2|]; cbn [option_map bind insert_after]; [|reflexivity].
    now rewrite Z.eqb_refl.
  - destruct (Z.eqb_spec a2 a1); [congruence|].
    rewrite place_insert by congruence.
    destruct (insert_after a1 t1 r) as [r1|]; cbn [option_map bind insert_after]; [|reflexivity].
    now rewrite Z.eqb_refl.
  - destruct (insert_after a1 t1 r) as [r1|] eqn:E1; destruct (insert_after a2 t2 r) as [r2|] eqn:E2;
      cbn [option_map bind insert_after] in *.
    + destruct (Z.eqb_spec x a1); [congruence|]. destruct (Z.eqb_spec x a2); [congruence|].
      rewrite <- IH. reflexivity.
    + destruct (Z.eqb_spec x a2); [congruence|]. rewrite IH. reflexivity.
    + destruct (Z.eqb_spec x a1); [congruence|]. rewrite <- IH. reflexivity.
    + reflexivity.
Qed.
Print Assumptions insert_commute.

(* non-vacuity *)
Example ex : bind (insert_after 0 5 [0;3;1]) (insert_after 0 7) = Some [0;7;5;3;1].
Proof. reflexivity. Qed.
