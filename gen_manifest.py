#!/usr/bin/env python3
"""Regenerates MANIFEST.json from checks/manifest_data.py (kept valid at all times)."""
import json, os, sys
sys.path.insert(0, os.path.join(os.path.dirname(os.path.abspath(__file__)), "checks"))
from manifest_data import CHECKS, NOT_APPLICABLE, NOTES, HOOK_COMMITS

m = {
    "version": 1,
    "setup_cmd": "./check --setup",
    "hooks": {
        "guard": "verif",
        "enable": "go build -tags verif (the harness in /verif/harness is built with the tag against /repo's working tree through a replace directive)",
        "baseline_off_cmd": "cd /repo && GOFLAGS=-mod=mod GOPROXY=off go test -vet=off -count=1 -timeout 25m ./...",
        "source_commits": HOOK_COMMITS,
        "add_only": True,
    },
    "engines": [
        {"name": "E-coq", "path": "coq/", "serves_properties": [c["property_id"] for c in CHECKS], "kind_free_text": "Coq 8.16.1 development: executable model, lemmas (Proofs/), property theorems (Props/), correspondence judges (Corr/)"},
        {"name": "E-impl", "path": "harness/", "serves_properties": [c["property_id"] for c in CHECKS], "kind_free_text": "Go harness vh: drives the real packages of /repo on generated inputs, evaluates the property oracle on the implementation, emits cases_*.v for the model"},
        {"name": "driver", "path": "check", "serves_properties": [c["property_id"] for c in CHECKS], "kind_free_text": "python3 driver: builds, runs engines, lets coqc judge the cases, classifies against KNOWN_FINDINGS.json, writes evidence"},
    ],
    "checks": [],
    "notes": NOTES,
    "not_applicable": NOT_APPLICABLE,
}
for c in CHECKS:
    pid = c["property_id"]
    m["checks"].append({
        "property_id": pid,
        "quick_cmd": "./check %s quick" % pid,
        "thorough_cmd": "./check %s thorough" % pid,
        "evidence_file": "evidence/%s.json" % pid,
        "replay_cmd_template": "./check %s --replay {path}" % pid,
        "engine": "E-coq + E-impl",
        "level_claimed": {"category": c.get("category", "proof"), "text": c["text"], "design_ref": c.get("design_ref", "DESIGN.md section 5")},
        "level_note": c["note"],
        "technique": c["technique"],
    })
json.dump(m, open(os.path.join(os.path.dirname(os.path.abspath(__file__)), "MANIFEST.json"), "w"), indent=1)
print("MANIFEST.json written: %d checks, %d not applicable" % (len(m["checks"]), len(m["not_applicable"])))
