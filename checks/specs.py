"""Per-property configuration of the check driver."""
import json
import os
import subprocess

ROOT = os.path.dirname(os.path.dirname(os.path.abspath(__file__)))

SPECS = {
    "C06": {
        "engines": [
            {"name": "c06", "n": {"quick": 600, "thorough": 6000}},
        ],
        "explanation": "Theorems about the clock model (Clock/ChangeID.v, Base/VV.v); model tied to pkg/document/change/id.go, change/context.go and time/version_vector.go by running both on the same random event sequences.",
        "assumptions": [
            "remote change ids are well formed (every vector entry <= the id's lamport), which is itself an invariant every replica maintains (step_wf)",
            "actor ids are compared through their rank in byte order",
        ],
    },
    "C20": {
        "engines": [
            {"name": "c20", "n": {"quick": 1200, "thorough": 12000}},
        ],
        "explanation": "Theorems about the ChangeStore model (Cache/ChangeStore.v): transparency and no-refetch for every disciplined call sequence; the model is compared with the real mongo.ChangeStore on random op sequences over tables with holes; the transparency oracle is also evaluated directly on the implementation.",
        "assumptions": [
            "caller obligations of mongo/client.go (inserted items are table rows; a range is expanded only after its rows were inserted; new rows are not yet covered) are hypotheses of the theorem; the MongoDB client code that must honour them cannot run here",
            "btree and sort.Slice are abstracted to sorted lists",
        ],
    },
}


def replay(pid, path):
    """Re-run a recorded failing input: the replay file names engine, seed and case."""
    rp = json.load(open(path))
    print(json.dumps(rp, indent=1)[:4000])
    eng = rp.get("engine")
    if not eng:
        return 0
    vh = os.path.join(ROOT, ".work", "bin", "vh")
    out = os.path.join(ROOT, ".work", pid, "replay-run")
    os.makedirs(out, exist_ok=True)
    rc = subprocess.call([vh, eng, "-replay", path, "-out", out])
    return rc
