"""Per-property configuration of the check driver."""
import json
import os
import subprocess

ROOT = os.path.dirname(os.path.dirname(os.path.abspath(__file__)))

SPECS = {
    "C01": {
        "corr": ["RGA", "RGA2", "ERHT", "Text", "TextSty", "Proto"],
        "engines": [
            {"name": "hist", "tag": "c01", "extra": "prop=C01", "n": {"quick": 700, "thorough": 12000}},
            {"name": "rga", "n": {"quick": 500, "thorough": 6000}},
            {"name": "erht", "n": {"quick": 500, "thorough": 6000}},
            {"name": "textrga", "n": {"quick": 150, "thorough": 2500}, "seed_off": 3},
            {"name": "textsty", "n": {"quick": 100, "thorough": 1500}, "seed_off": 5},
        ],
        "explanation": "Generic convergence theorem (commutation of concurrent operations => all causal delivery orders agree); commutation proved for counters, for array inserts on the RGAList model, for batches of object Sets and Removes (any delivery order) and for pairs of concurrent text edits on the character-level model of RGATreeSplit.edit; delivery discipline proved in C04. The structure models (RGAList incl. move/set/purge, ElementRHT, Counter, TextRGA) are compared with the real structures on random call sequences (text: 2-3 replicas of crdt.Text with causal delivery, the complete node list after every execution); the convergence oracle runs on real multi-client histories (2-5 clients, all flavors, push-only syncs).",
        "assumptions": [
            "PARTIAL: proved - object members (batches of Sets and Removes, any order), text (any number of pairwise concurrent honest edits in any order; style/style and style/edit commutation), arrays (any number of concurrent inserts, moves, deletes in any order, on the position-list model run in lockstep with the slot model), counters, array inserts; not proved - array set-by-index (finding P13), tree; those clauses rest on the structure correspondence and on the convergence oracle",
            "text model: characters instead of runs (the harness expands runs), attribute tables beside the list; undo restore spans, GC of attributes and the index trees are not modelled",
            "Root/operation glue (operations.Execute, json proxies) is exercised only by the history oracle, not modelled",
        ],
    },
    "C02": {
        "corr": ["RGA", "RGA2", "ERHT"],
        "engines": [
            {"name": "hist", "tag": "c02", "extra": "prop=C02", "n": {"quick": 500, "thorough": 8000}},
            {"name": "erht", "n": {"quick": 300, "thorough": 3000}, "seed_off": 11},
        ],
        "explanation": "Histories on projects with snapshot interval/threshold in {1,2,3,5,10}, late attachers, detach/re-attach and in-flight edits: every attached client (many of them fed by snapshots) must show what a replica that applied every change one by one shows; the server-side rebuild at the current head (cache as-is, warm, and after the caller mutated the returned copy) and the cold rebuild of every historical serverSeq must equal that replica too. The ElementRHT engine checks the structural fact snapshots rely on (no live-but-unlinked member). Step Sh: the background snapshot job of a push is held at its first storage read while the next client pushes (a snapshot job overtaken by a later push).",
        "assumptions": [
            "objects: the snapshot round trip is a theorem on the model of converter.fromJSONObject (any listing order of the members, then any later Sets), and the model's decode is compared with the real ObjectToBytes/BytesToObject on every table the erht engine reaches (members listed in an engine-chosen permutation; all members, tombstones, movedAt and links compared)",
            "PARTIAL: no theorem about the byte codec itself, arrays with moved elements, text, tree or the server rebuild; those are decided by the differential oracle",
        ],
    },
    "C03": {
        "corr": ["RGA", "RGA2", "ERHT", "Proto"],
        "engines": [
            {"name": "hist", "tag": "c03", "extra": "prop=C03", "n": {"quick": 2000, "thorough": 10000}},
            {"name": "rga", "n": {"quick": 300, "thorough": 4000}, "seed_off": 7},
        ],
        "explanation": "Theorem C03_minimum_vector_is_safe: on the protocol model, for every reachable state of honest clients whose vectors only grow and every sync handled in one piece, the response vector never covers knowledge that an unsent change of another client lacks, and everything stored has been delivered (GC safety); refuted for a handler that reads the pull range before the minimum (finding P11, also exercised on the real server by holding a sync at a storage call). Theorems: purging dead positions never changes the visible array; a purge decided with the minimum vector is justified by every vector it was computed from; the response vector is that minimum (and none is sent on push-only responses). Twin-run oracle on real histories: the same history with an extra idle attached client (which pins the minimum vector, so nothing is ever purged) must end in the same content, with no sync error on either side.",
        "assumptions": [
            "PARTIAL: 'content(GC on) = content(GC off) for every history' is decided by the twin-run oracle, not by a theorem",
        ],
    },
    "C07": {
        "corr": ["RGA", "RGA2", "ERHT", "Text"],
        "engines": [
            {"name": "textrga", "n": {"quick": 120, "thorough": 2000}, "seed_off": 9},
            {"name": "rga", "n": {"quick": 600, "thorough": 8000}, "seed_off": 3},
            {"name": "erht", "n": {"quick": 400, "thorough": 5000}, "seed_off": 3},
            {"name": "c07", "n": {"quick": 300, "thorough": 6000}},
            {"name": "c07tree", "n": {"quick": 250, "thorough": 4000}, "seed_off": 5},
        ],
        "explanation": "Counter arithmetic proved (modular sum, wrap examples). Text: a local edit at visible indices is a splice of the visible string (theorem on the TextRGA model, whose findNodePos and edit are compared with the real crdt.Text after every execution). Array index arithmetic: the RGAList model's linear scans are compared with the real treelist-backed Len/Get on every generated state. Text/array/object/counter editing calls on one Document (after random remote changes and GC) are compared with a plain reference (Go string/slice/map) by the c07 engine. The c07tree engine edits a tree with the full alphabet (text, paragraphs, inline elements, deletions, merges, splits, styles; remote edits and GC in between) and after every step compares Len and every index<->path conversion with a tree built from nothing but the visible XML (deleted content must not influence them; positions inside mixed text/element content, whose paths count text chunks, are skipped), and rebuilds arrays by DeepCopy and by the snapshot codec after moves, comparing Len and every Get(i) with the live array.",
        "assumptions": ["text: splice theorem on the character-level model (ASCII; UTF-16 units and styles are not in the model), tied by the textrga engine incl. CreateRange; tree index arithmetic has no Coq model: reference-model differential only"],
    },
    "C08": {
        "corr": [],
        "engines": [
            {"name": "hist", "tag": "c08", "extra": "prop=C08", "n": {"quick": 700, "thorough": 10000}},
        ],
        "explanation": "Theorems over the Document.Update state machine with the CRDT layer abstracted (Section variables): a failing update changes nothing and drops the clone; clone = root is invariant under every sequence of updates given [proxy_agrees]. The hypothesis is what the engine validates on the real code: Root().Marshal() = Marshal() after every step of histories with failing/panicking updaters, remote packs, GC and undo/redo; and the all-or-nothing fingerprint (content, pending changes, checkpoint, vector, undo depth) around every failing update. A failed update's fingerprint covers the presence carried by every pending change and the client's own presence (finding P48, repaired by da0e87af: the clone's presence entries were shared with the document's); failing callbacks also set presence before they fail.",
        "assumptions": ["[proxy_agrees] (executing the pushed operations on the root reproduces what the json proxy did to the clone) is a hypothesis of C08_clone_equals_root, validated differentially, not proved for the real json/operations code"],
    },
    "C10": {
        "corr": ["Proto"],
        "engines": [
            {"name": "hist", "tag": "c10", "extra": "prop=C10", "n": {"quick": 500, "thorough": 6000}},
        ],
        "explanation": "Theorems on the protocol model: non-forced compaction is refused while a client is attached; a compaction bumps the epoch, leaves at most one row and purges the vector rows; a client of an older epoch can add nothing to the log whatever it sends, its pull is refused with ErrEpochMismatch, its detach goes through. Histories with normal and forced compactions (run through the cluster client as housekeeping does), stale syncs with unsent edits, detaches and fresh attaches are executed on the real server and replayed through the model; oracles on the implementation: content of the server document before = content rebuilt from the compacted log, refused compaction changes nothing, stale sync is refused and stores nothing, stale detach succeeds, everybody converges after re-attaching. Step Kq: a forced compaction while the snapshot a sync started in the background is held right before it is written (finding P50, repaired by 2747fa53: the old epoch's snapshot was stored into the new epoch).",
        "assumptions": ["content preservation rests on the rebuild-and-compare step of packs.Compact (YSON round trip, property C18): oracle, not theorem"],
    },
    "C11": {
        "corr": ["Life", "Proto"],
        "engines": [
            {"name": "life", "n": {"quick": 1200, "thorough": 12000}, "spec_corr": "lifecycle state machine of docs/design/document-client-lifecycle.md"},
            {"name": "hist", "tag": "c11", "extra": "prop=C11", "n": {"quick": 300, "thorough": 4000}},
        ],
        "explanation": "Lifecycle specification (transcribed from the design document) with theorems for every state and call (PushPull only when attached, rejected call is a no-op, detached/removed/deactivated clients cannot write, removed is forever). The real RPC server is compared with the specification call by call (verdict, stored client/document status, number of stored changes) on all call sequences up to length 2 (quick) / 3 (thorough) over 2 client slots x 2 document keys plus seeded mostly-valid sequences of length 4-8; histories with detach/deactivate/re-attach are replayed through the protocol model, and the response vector must be exactly the minimum over the currently attached clients (a detached or deactivated client no longer holds back GC). A removed document stores no further change (C11_removed_stores_no_further_change; finding P47, repaired by 23534f91: the lifecycle model had followed the code, which stored what other attached clients pushed after the removal).",
        "assumptions": ["memory DB only; documents attached with presence disabled in the sequence engine"],
    },
    "C13": {
        "corr": ["Authz"],
        "exhaustive": True,
        "engines": [
            {"name": "authz", "n": {"quick": 1, "thorough": 1}},
        ],
        "explanation": "Theorems over the project-scoped store: for every database, request and YorkieService procedure, serving a request leaves every other project's rows unchanged (integrity) and its response is a function of the caller's own project's rows only (a foreign id is answered like a nonexistent one); this holds for every program written against the scoped primitives and the checked global lookup, and the handlers are such programs; identical keys in two projects are different objects; the credential gate refuses Admin calls without token/secret key and Cluster calls without the cluster secret. Engine: a real server with attacker, victim and control projects; every procedure of the three services (enumerated from the generated descriptors) x credentials {none, garbage, attacker's} x every subset of id-typed request fields taken from the victim; oracles: the victim's rows in every memdb table and its channel sessions are byte-identical afterwards, the connect code equals that of the same request with nonexistent ids, no response contains victim data, calls without a valid credential are refused; the same request shapes with the control project's own credential and ids must be live. Observed verdicts, database-layer lookups over the (project, owner) matrix, gate verdicts and the classification of every procedure are judged by the model.",
        "assumptions": [
            "PARTIAL: Admin and Cluster handlers are modelled by the credential gate only; their isolation (project membership, secret-key project) is decided by the engine's oracles, not by a theorem",
            "error messages are not compared (upstream's not-found messages differ between a foreign and an unknown client id; the property's observable is the connect code)",
            "webhook authorisation (auth.VerifyAccess) is off in the scenario; memory database only",
        ],
    },
    "C09": {
        "corr": ["Codec", "PbWire"],
        "engines": [
            {"name": "pbwire", "n": {"quick": 900, "thorough": 12000}, "seed_off": 13},
            {"name": "codec", "n": {"quick": 500, "thorough": 6000}},
        ],
        "explanation": "Theorems: the version-vector byte codec round-trips, rejects every truncation of an encoding and does work bounded by the input whatever entry count the bytes claim; int64 and the snapshot format header round-trip; whatever the decoders accept as an operation of a change carries every ticket the executor dereferences. Engine: two author documents (all flavors incl. trees, styles, moves, array set, undo/redo) exchange changes; every pack also reaches passive replicas as change objects, through ToChangePack/proto/FromChangePack, through the ChangeInfo storage encoding, and one replica is repeatedly replaced by BytesToSnapshot(Decompress(Compress(SnapshotToBytes(it)))): all must marshal identically, hold the same garbage, and encode to the same canonical snapshot (tickets, tombstones). Hostile stream: structure-aware mutations of valid packs and snapshots, truncations, bit flips and random bytes; every pack the decoder accepts is executed on a replica positioned just before it (as the server's document rebuild does), snapshots are decoded, marshalled, deep-copied and re-encoded; byte-level decoders with attacker-chosen counts run in a memory-limited child process. Version-vector byte strings and operation ticket shapes are judged by the Coq model.",
        "assumptions": [
            "PARTIAL: no Coq model of the protobuf conversion of operations, elements and snapshots (to_pb/from_pb, to_bytes/from_bytes): their losslessness is decided by the differential stream, not by a theorem",
            "protobuf wire codec (google.golang.org/protobuf) and zstd are library code: trusted (zstd round trip is a hypothesis of C09_snapshot_header_roundtrip)",
            "[executor_reads] is transcribed from operations/*.go; its tie to the code is the hostile stream (no panic) and the decoder verdict correspondence",
        ],
    },
    "C18": {
        "corr": ["Yson", "Proto"],
        "engines": [
            {"name": "yson", "n": {"quick": 400, "thorough": 5000}},
            {"name": "hist", "tag": "c18", "extra": "prop=C10,flavor=tree+text+mixed+arraymove+object", "n": {"quick": 200, "thorough": 3000}, "seed_off": 5},
        ],
        "explanation": "Theorems on the text path where it deviates from JSON: Unmarshal's global ReplaceAll rewriting is the identity exactly on texts without constructor tokens and ')' and is refuted otherwise; Long values come back exactly up to 2^53 and are refuted beyond (model compared with yson.Unmarshal on every run). Engine: every reachable document of two-author histories (all element types incl. nested containers, styled text, trees with attributes, dedup counters as members and as array elements) and generated literals (every primitive kind at extreme values, counters, texts, trees, nesting; a separate unsafe-string stream) go through the value path FromCRDT -> SetYSON -> FromCRDT (what packs.Compact does), the text path Marshal -> Unmarshal -> SetYSON (what revision restore does) and a stability check; on a real server revisions are created, the document edited on and restored, and documents are compacted and rebuilt from the compacted log; histories with compactions on the real server (C10 oracles) run on tree/text/mixed documents.",
        "assumptions": [
            "PARTIAL: the value path (SetYSON / FromCRDT) has no Coq model: decided by the differential engine",
            "encoding/json is trusted as a JSON parser with float64 numbers; the DedupCounter regular expression is not modelled",
        ],
    },
    "C14": {
        "corr": ["Hist"],
        "engines": [
            {"name": "undo", "n": {"quick": 150, "thorough": 2500}},
        ],
        "explanation": "Theorem: on the history model (two stacks of entries of reverse operations, capacity 50, redo cleared by a new update) with the content edits of C14's alphabet (counter increase with 32/64-bit wrap, object set/delete, array insert/delete, text replace) k undos show exactly the content recorded k steps back and j <= k redos the content k - j steps back, for every program and every k within the capacity; proved generically for every executor whose reverses invert exactly, and the content edits are shown to be one. Engine: single-client sessions (updates, undo, redo, further updates cutting the redo branch, sessions longer than the capacity) on a real Document; content after every Undo/Redo compared with the recorded one, CanUndo/CanRedo compared with the walk; every session is replayed through the Coq model step by step. Tree content edits are judged by recorded XML; approximate kinds (styles, moves, set-by-index, merges, splits): Undo/Redo never fail or panic, clone == root, and a peer fed with all changes shows the author's content. The sessions contain garbage-collection steps (everything acknowledged: tombstones purged, as on a synced client), after which an undo has to re-create what it restores (findings P51 and P53, repaired; P52, known: a re-created piece can land next to its sibling piece instead of where it was); a failing session is re-run without its collection steps and five times as it is for the signature.",
        "assumptions": [
            "PARTIAL: tree edits and the approximate kinds have no Coq model (engine oracles only)",
            "indices that would cut a UTF-16 surrogate pair are not generated (finding P26 of C07)",
            "an index beyond the current size is a no-op that is its own reverse in the model; the public API panics on it and the generated programs contain none",
        ],
    },
    "C15": {
        "corr": [],
        "exhaustive": True,
        "engines": [
            {"name": "undosync", "n": {"quick": 1, "thorough": 1}},
            {"name": "hist", "tag": "c15", "extra": "prop=C15", "n": {"quick": 300, "thorough": 5000}},
        ],
        "explanation": "Exhaustive small scope on real Documents with a minimal in-process server that sends the minimum version vector back (so the clients garbage-collect as with a real server): every sequence over {edit, undo, redo, sync} x 2 clients with <= 3 edits per client, <= 2 undo/redo, >= 1 undo, length <= 5 (quick) / 6 (thorough), per flavor (object, array, text, counter, tree, array with moves), run to quiescence: replicas marshal identically, hold the same garbage, clone == root, nothing fails. Random larger histories with undo/redo (2-3 clients, late attachers, in-flight requests, snapshots) on the real server with the convergence, clone==root and server-rebuild oracles. Theorems: the reverse of a counter increase commutes with concurrent increases; the object restore under the old identity is refuted on the ElementRHT model with the witness the engines find (finding P20). Flavor 'members' (object members that are containers with content: text, array) covers deleting such a member and undoing it (findings P46: a text value travelled empty, fc0c1a73; P49: undo failed on a purged container, 2adbc565).",
        "assumptions": [
            "PARTIAL: convergence of undo/redo is decided by execution (exhaustive in the small scope), not by a theorem; for objects, text and trees it is refuted (P20)",
        ],
    },
    "C17": {
        "corr": ["PubSub"],
        "engines": [
            {"name": "pubsub", "race": True, "n": {"quick": 48, "thorough": 400}},
        ],
        "explanation": "Theorems on a model whose atomic actions are the critical sections of server/backend/pubsub (Upsert callback, sub.Close, Get, subs.Delete, Delete callback, publisher enqueue, publisher tick, stalled consumer) under arbitrary interleaving with any number of threads: invariant (an object with members is the current map entry and its publisher runs), no lost event (once Subscribe(s) returned, an event whose Publish starts later stays delivered / queued in the open object s belongs to / s closed, through every interleaving in which s has not begun to unsubscribe; one tick delivers it), and the map entry is removed when the last member has gone. Engine, built with the race detector: sequential sessions of whole calls on the real PubSub replayed on the model (ClientIDs and received events after every call), and concurrent stress (4 subscribing/unsubscribing goroutines, 3 publishers, stalled consumers): every (publish, subscription established before it and kept for the delivery bound) pair must be delivered, no panic, no data race, ClientIDs empty at the end. End to end: on a real server one SDK client watches a document, another pushes changes one at a time; every stored push has to reach the watcher as DocumentChanged within 4 s - on a plain project and on one whose event webhook endpoint answers 500.",
        "assumptions": [
            "PARTIAL: 'within bounded time' is wall-clock: checked on the implementation with a 1.2 s bound (publisher window 100 ms; generous so that a loaded machine raises no false alarm), not proved",
            "the model abstracts the capacity-1 channel and the 100 ms publish timeout into 'delivery succeeds unless the consumer stalled (AStall)'; mutual exclusion of the critical sections themselves (cmap shard lock, subscription mutex) is what the race detector run checks",
            "the correspondence compares whole calls (one interleaving per call); finer interleavings of the real code are exercised by the stress stream only",
        ],
    },
    "C16": {
        "level": "proof",
        "corr": ["Locks"],
        "engines": [
            {"name": "locks", "race": True, "n": {"quick": 1, "thorough": 1}, "spec_corr": "lock order doc -> pull -> attachment -> push (docs/design/fine-grained-document-locking.md)"},
        ],
        "explanation": "Theorem: threads taking named reader/writer locks (writer preference) in strictly increasing class order never deadlock - progress in every reachable state, any number of threads, any keys, any schedule; instantiated for any table of handler sequences that follow the order. The table is regenerated on every run by a translator (lockscan: Go AST of server/rpc, packs, documents, clients, projects, revisions; acquisitions in source order, callees and ClusterService calls inlined, asynchronous function literals as separate entry points) and every extracted sequence must satisfy the premise. The pre-repair order of ClusterService.DetachDocument is exhibited as a three-party deadlock in the model. Workload in a race-detector build: 8 SDK clients x 3 documents attach/edit/sync/watch/detach/deactivate in parallel with compaction and housekeeping passes on a real server with tiny snapshot settings: every call returns within 30 s (goroutine dump otherwise), no unexpected error, no race report, convergence and a dense ordered log afterwards. After the workload every document must be rebuildable from the store; an unexpected server error is diagnosed on the spot (which stored change fails on which stored snapshot).",
        "assumptions": [
            "PARTIAL: data-race freedom and memory safety are searched with the race detector, not proved (no executable Gallina model exhibits the Go memory model)",
            "the translator assumes locks are released with defer (held until the entry point returns: conservative) and resolves callees by package/receiver name; a handler it cannot see is not in the table (the engine fails if fewer than 8 entry points with locks are found)",
            "lock primitives themselves (pkg/locker, sync.RWMutex) are trusted to implement RW locks with writer preference",
        ],
    },
    "C04": {
        "corr": ["Proto"],
        "engines": [
            {"name": "hist", "tag": "c04", "extra": "prop=C04", "n": {"quick": 500, "thorough": 6000}},
        ],
        "explanation": "Theorems about the protocol model (Proto/Server.v = packs.PushPull over the memory DB; Proto/System.v = honest clients): log density, per-actor order, exactly-once/no-echo delivery and bounded checkpoints for every number of clients, every edit sequence and every interleaving of syncs, push-only syncs and lost responses. The model replays every request/response recorded from the real server (model response must equal the real one, final log rows must agree); the delivery and density oracles are also evaluated directly on the implementation's traffic and log.",
        "assumptions": [
            "sequential request granularity: one PushPull at a time per document (true interleavings of the phases of concurrent requests are the C16/C04-sched engine); memory DB only, MongoDB not executed",
            "delivery theorem is for clients whose change stream was not replaced by a snapshot and for one attachment session per client (re-attachment is covered by the correspondence and the oracle, not by the theorem)",
        ],
    },
    "C05": {
        "corr": ["Proto"],
        "engines": [
            {"name": "hist", "tag": "c05", "extra": "prop=C05", "n": {"quick": 500, "thorough": 6000}},
        ],
        "explanation": "Theorems: in every reachable state (lost responses and retries included) an honest client's sync is accepted and acknowledges all pending changes; (actor, clientSeq) rows are never duplicated; delivery stays exactly-once. a sync answered with a snapshot (first attempt or retry) builds the snapshot from the stored log exactly, every change once (C05_snapshot_applies_each_change_once; finding P45, repaired by 56275d99, is the witness C05_resend_into_snapshot_refuted). Tied by replaying recorded traffic (retried identical requests, and retries by a fresh pack that also carries the edits made since) through the model; half of the histories run on projects with tiny snapshot interval/threshold so that retries are answered with snapshots; oracles on the implementation: no duplicate (actor, clientSeq) row, convergence, retried request accepted.",
        "assumptions": [
            "storage faults inside a request: the hist engine makes the n-th storage call of a sync fail, before or after it took effect (decorated database), and the client retries the identical pack; faults in the window between CreateChangeInfos and UpdateClientInfoAfterPushPull duplicate the pushed changes (finding P8, known; model witness C05_crash_in_push_window_refuted); histories with a fired fault are not replayed through the protocol model (it handles whole requests)",
            "memory database only: the fault is an error returned by the storage interface, not a torn write inside one storage call",
        ],
    },
    "C06": {
        "corr": ["C06", "Proto"],
        "engines": [
            {"name": "c06", "n": {"quick": 600, "thorough": 6000}},
            {"name": "hist", "tag": "c06", "extra": "prop=C06", "n": {"quick": 400, "thorough": 5000}},
        ],
        "explanation": "Theorems about the clock model (Clock/ChangeID.v, Base/VV.v); model tied to pkg/document/change/id.go, change/context.go and time/version_vector.go by running both on the same random event sequences.",
        "assumptions": [
            "remote change ids are well formed (every vector entry <= the id's lamport), which is itself an invariant every replica maintains (step_wf)",
            "actor ids are compared through their rank in byte order",
        ],
    },
    "C12": {
        "corr": ["Proto"],
        "engines": [
            {"name": "hist", "tag": "c12", "extra": "prop=C12", "n": {"quick": 600, "thorough": 8000}},
        ],
        "explanation": "Theorems on the protocol model: on a presenceless document no request makes the server store or return presence. Histories with presence sets, initial presences, detach/re-attach with fresh documents, deactivation, snapshot pulls, presenceless documents (with later attachers that do and do not pass the flag) run on the real server and are replayed through the model; oracles: AllPresences identical on all attached replicas and equal to the set of attached actors; presenceless documents have no presence in the log, in responses, or on any client.",
        "assumptions": ["client-side presence application (document.applyChanges) is exercised by the oracle only"],
    },
    "C19": {
        "level": "exploration", "exhaustive": True,
        "corr": ["ERHT", "TreeText"],
        "engines": [
            {"name": "tree", "n": {"quick": 1, "thorough": 1}},
            {"name": "erht", "n": {"quick": 400, "thorough": 4000}, "seed_off": 19},
            {"name": "treetext", "n": {"quick": 150, "thorough": 2500}, "seed_off": 23},
        ],
        "explanation": "The five pairwise matrices (1592 pairs) transcribed from test/complex/tree_concurrency_test.go are run exhaustively on real Documents in 2 actor orders x 2 delivery orders, each with a snapshot-fed third replica and clone==root on every replica (6368 executions; a divergent pair is a failure, not a skip). Coq: the attribute tables written by Style/RemoveStyle are proved convergent (LWW registers commute); the RHT model is compared with crdt.RHT on random call sequences. The one-level fragments of Tree.Edit ('text inside one element', and 'empty elements among the children of one element') have a character-level model (Crdt/TreeText.v: position resolution with the step over newer pieces, deletion under the author's version vector, insertion) that is compared with the real crdt.Tree on 2-3 replicas with causal delivery after every execution (engine treetext: every piece id, character and tombstone), and on it two concurrent edits are proved to commute (C19_text_edits_in_one_element_commute_partial).",
        "assumptions": ["PARTIAL: crdt/tree.go has a Coq model for the one-level fragments only (text inside one element; empty elements under one parent; no nesting, splits, merges); for everything else the matrix verdict is exhaustive execution of the finite matrix on the implementation",
                        "engine treetext renders the ticket of an inserted text node as the ticket of its edit (same actor and lamport, neighbouring delimiters: every comparison between tickets of different edits is decided alike for the two); ranges given the wrong way round are outside the model and not generated (crdt.Tree.Edit inserts at a place that depends on how the characters are chunked into pieces)"],
    },
    "C20": {
        "engines": [
            {"name": "c20", "n": {"quick": 1200, "thorough": 12000}},
            {"name": "hist", "tag": "c20snap", "extra": "prop=C20", "n": {"quick": 200, "thorough": 3000}, "seed_off": 5},
            {"name": "hist", "tag": "c20compact", "extra": "prop=C20,compact=1", "n": {"quick": 200, "thorough": 3000}, "seed_off": 9},
        ],
        "explanation": "Theorems about the ChangeStore model (Cache/ChangeStore.v): transparency and no-refetch for every disciplined call sequence, sequences in which the fetcher fails in the middle of an EnsureChanges included (only the ranges fetched before the failure count as fetched: C20_failed_fetch_marks_only_fetched); the model is compared with the real mongo.ChangeStore on random op sequences over tables with holes; the transparency oracle is also evaluated directly on the implementation. Snapshot cache: theorems on the model of BuildInternalDocForServerSeq (every rebuild after any sequence of pushes, stored snapshots, purges and rebuilds returns the replay of the stored changes; the guard on the cached sequence is needed; with the rebuild's garbage collection over time (Cache/SnapGC.v) caching only documents built at the head never blocks a later rebuild, and caching any rebuild is refuted); every rebuild of the history engine (head as-is/warm/after caller mutation, an older sequence with the head cached, the head again; a second set of histories with compactions, where the entry must not survive the log reset) is compared with the store alone and its recorded storage calls with the model's plan (finding P55, repaired by e2685b8d: an older-sequence rebuild left a garbage-collected entry in the cache).",
        "assumptions": [
            "caller obligations of mongo/client.go (inserted items are table rows; a range is expanded only after its rows were inserted; new rows are not yet covered) are hypotheses of the theorem; the MongoDB client code that must honour them cannot run here",
            "btree and sort.Slice are abstracted to sorted lists",
        ],
    },
}


def replay(pid, path):
    """Re-run a recorded failing input: the replay file names engine, seed and case."""
    rp = json.load(open(path))
    print(json.dumps(rp, indent=1)[:4000])
    eng = rp.get("engine")
    if not eng:
        return 0
    vh = os.path.join(ROOT, ".work", "bin", "vh")
    out = os.path.join(ROOT, ".work", pid, "replay-run")
    os.makedirs(out, exist_ok=True)
    cmd = [vh, eng, "-replay", path, "-out", out]
    extra = rp.get("extra") or next((e.get("extra") for e in SPECS[pid]["engines"] if e["name"] == eng and e.get("extra")), None)
    if extra:
        cmd += ["-x", extra]
    rc = subprocess.call(cmd)
    return rc
