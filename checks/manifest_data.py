HOOK_COMMITS = []
NOTES = "Machine-checked proof in Coq 8.16.1 over a hand-written executable model, tied to /repo by a correspondence run on every check (DESIGN.md)."

ALL = ["C%02d" % i for i in range(1, 21)]

CHECKS = [
    {
        "property_id": "C06",
        "text": "Coq theorems over the clock model for every event sequence of a replica (own entry, causal dominance, lamport strictness for opt-out authors, per-author monotonicity) and for every list of vectors (minimum never overstates); the model's executable definitions are compared with change.ID/change.Context/time.VersionVector on random event sequences on every run.",
        "note": "Trusted: Coq kernel, the harness, actor-rank mapping. The theorems are about Clock/ChangeID.v and Base/VV.v; the tie to the Go code is differential (600 cases quick, 6000 thorough).",
        "technique": "Coq proof (induction over replica event traces) + differential correspondence against the Go code",
    },
    {
        "property_id": "C20",
        "text": "Coq theorems: for every sequence of EnsureChanges/ExpandRange/ReplaceOrInsert calls and table growth that respects the caller obligations, EnsureChanges+ChangesInRange answers exactly the table rows of the range in order, and the fetcher is never asked for a covered sequence (invariant by induction over call sequences; range merging proved exact). The executable model is compared with the real mongo.ChangeStore on random op sequences on every run, and the transparency/no-refetch oracles are evaluated on the implementation itself.",
        "note": "Trusted: Coq kernel, harness. Modelled not verified: btree/sort (sorted lists), the MongoDB client around the store (cannot run without MongoDB), hashicorp LRU; the snapshot-cache part of C20 is checked by the C02 engine once built.",
        "technique": "Coq proof (invariant over call sequences) + differential correspondence against mongo.ChangeStore",
    },
]

_claimed = {c["property_id"] for c in CHECKS}
NOT_APPLICABLE = [
    {"property_id": p, "reason": "not yet claimed: the model and check for this property are still being built (see DESIGN.md section 10 build order); no verdict is reported for it"}
    for p in ALL if p not in _claimed
]
