HOOK_COMMITS = ["7d6eb498"]
NOTES = "Machine-checked proof in Coq 8.16.1 over a hand-written executable model, tied to /repo by a correspondence run on every check (DESIGN.md)."

ALL = ["C%02d" % i for i in range(1, 21)]

CHECKS = [
    {
        "property_id": "C17",
        "text": "Coq theorems over an interleaving model of the pub/sub critical sections (any number of subscribers, publishers, ticks; stale object pointers): invariant, no lost event for a subscriber that subscribed before the publish and has not begun to unsubscribe, map entry removed with the last member. The real PubSub is replayed call by call against the model and stress-tested concurrently under the race detector with a delivery-within-bound oracle, panic and leak checks.",
        "note": "PARTIAL: bounded-time delivery is checked dynamically (wall clock); the model is compared at call granularity.",
        "technique": "Coq proof (interleaving model, inductive invariant) + call-level replay + race-detector stress",
    },
    {
        "property_id": "C14",
        "text": "Coq theorem: on the undo/redo stack model with the content edits of the alphabet, k undos restore exactly the content recorded k steps back and j <= k redos the content k - j steps back (any program, any depth within the capacity of 50); proved for every executor with exactly inverting reverses and instantiated. Real single-client sessions are checked against recorded contents and replayed through the model step by step; approximate kinds are checked for no-failure, clone == root and peer agreement.",
        "note": "PARTIAL: tree edits and approximate kinds are engine oracles only.",
        "technique": "Coq proof (history model, inversion of reverse operations) + session replay through the model + recorded-content oracle",
    },
    {
        "property_id": "C15",
        "text": "Exhaustive execution of every small-scope two-client history with undo/redo (the property's own finite quantifier) on real Documents with a minimum-vector-sending mini server, plus random larger histories on the real server; Coq theorem for counters, Coq refutation (with the implementation's own witness) for the identity re-use of object/text/tree restores.",
        "note": "The property is violated on the pinned tree for object, text and tree restores (known finding P20, design-level, tracked upstream); violations are attributed only when the pushed changes re-use an identity (small scope) or when another client edits while one undoes (random histories).",
        "technique": "exhaustive small-scope execution + Coq proof (counter) / refutation (identity re-use) + random histories on the real server",
    },
    {
        "property_id": "C18",
        "text": "Coq theorems locate exactly where the YSON text path (Marshal -> Unmarshal) is the identity (texts without constructor tokens / ')', Long up to 2^53) and refute it elsewhere; the model of the rewriting and of the float64 parse is compared with yson.Unmarshal. Every reachable document of generated histories and generated literals goes through the value path, the text path and a stability check; revisions are created/restored and documents compacted and rebuilt on a real server.",
        "note": "PARTIAL: the value path has no Coq model. Known findings P9 (text path on unsafe literals) and P39 (dedup counter registers are not carried by operations: compaction and revision restore reset counted dedup counters) are attributed by signature.",
        "technique": "Coq proof (text-path rewriting and float64 model, with refutations) + differential round trips + real-server revision/compaction runs",
    },
    {
        "property_id": "C09",
        "text": "Coq theorems for the byte-level codecs (version vector: round trip, truncation rejected, work bounded by input; int64; snapshot header) and for the ticket-shape table of operations (accepted => every dereferenced ticket present). Losslessness of the protobuf conversions is decided differentially: every pack, stored change and snapshot of generated two-author histories goes through each encoding and the replicas are compared (content, garbage, canonical structure); a structure-aware hostile stream is decoded AND executed under recover/timeout/memory limit.",
        "note": "PARTIAL proof (no Coq model of to_pb/from_pb/to_bytes/from_bytes). Several genuine defects were repaired (P18, P36, P37, P38); known findings P32a/P32b/P33/P34 are attributed by signature.",
        "technique": "Coq proof (byte codecs, ticket shapes) + differential round-trip replicas + decode-then-execute hostile stream",
    },
    {
        "property_id": "C13",
        "text": "Coq theorems over a project-scoped store model: integrity (another project's rows never change) and confidentiality (the response is a function of the caller's own project's rows: foreign id = nonexistent id) for every database, request and YorkieService handler program, plus credential-gate theorems for the three services. Real server: every procedure from the service descriptors x credentials x every subset of victim-owned id fields, with byte-level dump of the victim's tables, blind-verdict and no-leak oracles; verdicts judged by the model.",
        "note": "Admin/Cluster handlers are covered by the gate theorems and by the engine's oracles only (PARTIAL). Error messages are not part of the observable.",
        "technique": "Coq proof (non-interference over a free-monad handler model) + differential RPC matrix on the real server",
    },
    {
        "property_id": "C12",
        "text": "Coq theorems on the protocol model for presenceless documents (nothing stored, nothing returned, for every request). Presence convergence is decided on the real system: random histories with presence edits, detach/re-attach, deactivation, snapshots, presenceless documents; oracle AllPresences equal on all replicas = attached actors; traffic replayed through the model.",
        "note": "Convergence of presence is an oracle over real histories (its delivery basis is C04's theorem); the presenceless clauses are theorems.",
        "technique": "Coq proof (presenceless invariants) + trace replay + presence oracles on real histories",
    },
    {
        "property_id": "C19",
        "text": "The property quantifies over a finite named matrix: all 1592 pairs x 2 actor orders x 2 delivery orders are executed on the real tree CRDT with a snapshot-fed third replica and clone==root checks (exhaustive). Coq proves the style fragment only (attribute tables are LWW registers whose operations commute; model tied to crdt.RHT).",
        "note": "PARTIAL proof: no Coq model of crdt/tree.go (merge/split machinery); the verdict on the matrix is exhaustive execution, which is the property's own finite quantifier.",
        "category": "exploration",
        "technique": "exhaustive enumeration of the finite matrix on the implementation + Coq proof for the attribute (style) fragment",
    },
    {
        "property_id": "C10",
        "text": "Coq theorems on the protocol model for compaction and stale epochs (refusal while attached, strict epoch, stale push adds nothing for every request, stale pull rejected, stale detach accepted). The model replays the traffic of real histories with normal/forced compactions; oracles on the real server cover content preservation, refusal, stale-client handling and convergence after re-attach.",
        "note": "Content preservation itself is an oracle (depends on the YSON rebuild, C18). Memory DB only.",
        "technique": "Coq proof (epoch theorems on the protocol model) + trace replay correspondence + compaction oracles",
    },
    {
        "property_id": "C11",
        "text": "Coq: lifecycle specification with theorems over all states and calls. Tie: the real RPC server must agree with the specification call by call (verdict, stored statuses, stored change count) on exhaustive short and seeded longer call sequences incl. invalid calls; protocol-model replay of histories with detach/deactivate; exact-minimum oracle for the coupling with the version-vector table.",
        "note": "Trusted: Coq kernel, harness; memory DB only.",
        "technique": "Coq proof (state-machine spec theorems) + call-by-call correspondence with the real RPC server",
    },
    {
        "property_id": "C02",
        "text": "Differential decision on the real system: snapshot-fed clients, the server's rebuilt document (all cache states, cold rebuild of every serverSeq) and a replica that applied every change one by one must agree, for random histories over small snapshot intervals/thresholds with late attachers and further edits; plus the ElementRHT structure correspondence (model = code) and its structural oracle. Theorems used: ElementRHT/RGAList models (tied), C20 cache lemmas.",
        "note": "PARTIAL: the snapshot codec itself has no Coq model yet; this check is differential (translation-validation style) with the structure models as support.",
        "category": "translation_validation",
        "technique": "differential oracle (snapshot-fed vs change-fed vs server rebuild) + structure correspondence",
    },
    {
        "property_id": "C01",
        "text": "Coq: generic strong-eventual-consistency theorem; commutation proved for counters (all orders) and for concurrent array inserts on the RGAList model (skip rule, generic over the ticket order, no list invariant); delivery discipline from C04. Tie: RGAList (insert/move/set/delete/purge), ElementRHT and Counter models are run against the real crdt structures on random call sequences every run. Decision for the unproved clauses (object LWW, moves, text, tree): convergence oracle on random real multi-client histories.",
        "note": "PARTIAL proof (see Props/C01.v header). Known finding P13 (array set-by-index after a move) is attributed only through its signature.",
        "technique": "Coq proof (SEC + commutation lemmas) + structure correspondence + convergence oracle on real histories",
    },
    {
        "property_id": "C03",
        "text": "Coq: purge view-invariance for arrays, purge justified by every vector under the minimum, response vector is the minimum. Tie and decision: structure correspondence incl. purge calls; twin-run oracle (GC pinned off by an idle attached client) on real histories with push-only syncs and in-flight edits.",
        "note": "PARTIAL proof; the equality content(GC on)=content(GC off) is an oracle, not a theorem.",
        "technique": "Coq proof (view invariance, min-vector lemmas) + twin-run differential oracle",
    },
    {
        "property_id": "C07",
        "text": "Coq: counter arithmetic (modular sum, wraparound). Array index arithmetic tied by comparing the model's linear scan with the real treelist on every generated state; editing calls on one Document compared with plain reference types after random remote changes and GC.",
        "note": "PARTIAL proof: text/tree index arithmetic has no Coq model (reference differential only).",
        "technique": "Coq proof (counter) + structure correspondence + reference-model differential",
    },
    {
        "property_id": "C08",
        "text": "Coq: Document.Update state machine over an abstract CRDT layer: failed update is a no-op that drops the clone; clone = root invariant for all update sequences under the agreement hypothesis. The hypothesis and the all-or-nothing fingerprint are validated on the real Document in random histories with failing/panicking updaters, remote packs, GC, undo/redo.",
        "note": "Hypothesis proxy_agrees is trusted-but-validated (differential), not proved about json/operations code.",
        "technique": "Coq proof (state machine, Section hypothesis) + differential validation of the hypothesis",
    },
    {
        "property_id": "C04",
        "text": "Coq theorems by one inductive invariant over all runs of the protocol model with any number of honest clients (log density, per-actor clientSeq order, exactly-once/no-echo delivery, bounded checkpoints), plus density under arbitrary (hostile) requests. The model is executed on the request/response traffic recorded from the real in-process server for random multi-client histories (attach/detach/re-attach, push-only, in-flight edits, lost responses) and must reproduce every response and the final log; independent oracles judge the implementation's own log and traffic.",
        "note": "Trusted: Coq kernel, harness, actor-rank mapping. Model granularity is one PushPull at a time (the doc.push lock / CAS interleavings are not in this check); memory DB only.",
        "technique": "Coq proof (inductive invariant over protocol runs) + trace replay correspondence against the real server",
    },
    {
        "property_id": "C05",
        "text": "Coq theorems over the same protocol model: after any run with lost responses and retries the honest client's retry is accepted and acknowledges everything pending, no (actor, clientSeq) is stored twice, delivery stays exactly-once. Tied to the code by replaying recorded traffic with retried identical requests; oracles on the real log (no duplicate rows), convergence of the real documents.",
        "note": "Trusted: as C04. Faults between the storage calls of one request are not covered by this check yet (known defect P8 of the pinned tree lives there).",
        "technique": "Coq proof (protocol invariant incl. lost responses) + trace replay correspondence",
    },
    {
        "property_id": "C06",
        "text": "Coq theorems over the clock model for every event sequence of a replica (system level: the response vector is the minimum over the stored rows, theorem on the protocol model; the ids in the real server log of random histories are checked for own-entry, uniqueness, monotonicity) (own entry, causal dominance, lamport strictness for opt-out authors, per-author monotonicity) and for every list of vectors (minimum never overstates); the model's executable definitions are compared with change.ID/change.Context/time.VersionVector on random event sequences on every run.",
        "note": "Trusted: Coq kernel, the harness, actor-rank mapping. The theorems are about Clock/ChangeID.v and Base/VV.v; the tie to the Go code is differential (600 cases quick, 6000 thorough).",
        "technique": "Coq proof (induction over replica event traces) + differential correspondence against the Go code",
    },
    {
        "property_id": "C20",
        "text": "Coq theorems: for every sequence of EnsureChanges/ExpandRange/ReplaceOrInsert calls and table growth that respects the caller obligations, EnsureChanges+ChangesInRange answers exactly the table rows of the range in order, and the fetcher is never asked for a covered sequence (invariant by induction over call sequences; range merging proved exact). The executable model is compared with the real mongo.ChangeStore on random op sequences on every run, and the transparency/no-refetch oracles are evaluated on the implementation itself.",
        "note": "Trusted: Coq kernel, harness. Modelled not verified: btree/sort (sorted lists), the MongoDB client around the store (cannot run without MongoDB), hashicorp LRU; the snapshot-cache part of C20 is checked by the C02 engine once built.",
        "technique": "Coq proof (invariant over call sequences) + differential correspondence against mongo.ChangeStore",
    },
]

_claimed = {c["property_id"] for c in CHECKS}
NOT_APPLICABLE = [
    {"property_id": p, "reason": "not yet claimed: the model and check for this property are still being built (see DESIGN.md section 10 build order); no verdict is reported for it"}
    for p in ALL if p not in _claimed
]
